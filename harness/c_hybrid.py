"""C18 / C19 / C20: hybrid (Python-dressed) objects: mirroring of buffer data, copy / move / nested assignment (C18),
dictionary round trip with default elision (C19), pickling (C20). Expected behaviour from an abstract model of dressed
objects over the reference store (Hybrid.v); every observable compared after every step."""
import json, os, hashlib, collections, random, copy
from core import *

BUDGET = {"quick": dict(n=140, shards=10, nops=10), "thorough": dict(n=3000, shards=16, nops=30)}


def gen_world(rng, pid):
    inner_fields = [["a", "scalar", "Int64"], ["b", "array", "Float64", [None]]]
    if rng.random() < 0.5: inner_fields.append(["m", "array", "Float64", [2, rng.choice([2, 3])]] + ([{"order": [1, 0]}] if pid == "C18" and rng.random() < 0.5 else []))
    if rng.random() < 0.5: inner_fields.append(["q", "scalar", "Float64"])
    if rng.random() < 0.4: inner_fields.append(["name", "string"])
    if pid == "C18" and rng.random() < 0.5: inner_fields.append(["b2", "array", "Float64", [None]])     # a second variable-length part
    if pid == "C19":
        inner_fields.append(["d1", "scalar", "Int32", {"default": 42}])
        inner_fields.append(["d2", "scalar", "Int32", {"factory": 7}])
        inner_fields.append(["d3", "scalar", "Int64", {"default": 1000000}])
        inner_fields.append(["d4", "scalar", "Float64", {"default": 1.0}])
        if rng.random() < 0.5: inner_fields.append(["w", "array", "Float64", [3]])
    inner = {"fields": inner_fields}
    if rng.random() < (0.7 if pid == "C19" else 0.4): inner["rename"] = {"a": "alpha"}
    classes = {"Inner": inner}; order = ["Inner"]
    if pid == "C19" and rng.random() < 0.6:
        # a subclass that re-declares the fields with other declared defaults
        dfields = copy.deepcopy(inner_fields)
        for f in dfields:
            if f[1] == "scalar" and len(f) > 3 and f[3]:
                f[3] = {"default": 5} if "default" in f[3] else {"factory": 9}
        classes["InnerD"] = {"fields": dfields, "base": "Inner"}
        if "rename" in inner: classes["InnerD"]["rename"] = dict(inner["rename"])
        order.append("InnerD")
    with_refs = (pid == "C18" and rng.random() < 0.55) or (pid == "C20" and rng.random() < 0.4)      # (C20: references stay unset)
    if with_refs and rng.random() < 0.4:
        classes["Mid"] = {"fields": [["ri", "ref", "Inner"], ["k", "scalar", "Int64"]]}; order.append("Mid")
    outer_fields = [["inner", "nested", "Inner"], ["inner2", "nested", "Inner"], ["s", "scalar", "Float64"], ["v", "array", "Float64", [None]], ["n", "scalar", "Int32"]]
    if with_refs and ("Mid" not in classes or rng.random() < 0.5): outer_fields.insert(2, ["r", "ref", "Inner"])     # sometimes references only inside a nested class
    if "Mid" not in classes and rng.random() < (0.6 if pid == "C19" else 0.3):
        # a middle level that renames nothing, holding a class that does
        classes["Mid"] = {"fields": [["inn", "nested", "Inner"], ["k", "scalar", "Int64"]]}; order.append("Mid")
    if "Mid" in classes: outer_fields.append(["mid", "nested", "Mid"])
    if pid == "C19" and rng.random() < 0.6:
        # a nested class whose fields ALL have declared defaults, held in a field for which the OUTER class declares
        # another default: an all-default nested object must still come back as it was
        classes["AllD"] = {"fields": [["k", "scalar", "Float64", {"default": 0.5}], ["n", "scalar", "Int32", {"default": 2}]]}
        order.insert(0, "AllD")
        outer_fields.append(["dd", "nested", "AllD", {"default": {"k": 1.5, "n": 7}}])
    rng.shuffle(outer_fields)
    outer = {"fields": outer_fields, "rename": {"inner2": "inner_renamed"}}
    if rng.random() < 0.3: outer["rename"]["s"] = "sigma"
    classes["Outer"] = outer; order.append("Outer")
    return {"classes": classes, "order": order}


DYNLEN = {}


def fval(rng, f):
    k = f[1]
    if k == "scalar":
        if f[2].startswith("Float"): return rng.choice([0.0, 1.5, -2.25, 3.0, 1e10, 42.0, 0.5])
        return rng.choice([0, 1, 2, 7, -5, 100, 42])
    if k == "string": return rng.choice(["", "a", "hello", "xyz12"])
    if k == "array":
        shape = [d if d is not None else DYNLEN.get(f[0], 3) for d in f[3]]    # sizes are fixed at creation: one length per field name
        def mk(sh):
            if len(sh) == 1: return [rng.choice([0.0, 1.0, 2.5, -3.0, 7.0]) for _ in range(sh[0])]
            return [mk(sh[1:]) for _ in range(sh[0])]
        return mk(shape)


class HModel:
    """dressed objects: name -> {cls, buf, fields: {fname: value | nested dict | {"ref": name|None}}, movable, pyattrs}"""
    def __init__(self, world):
        self.w = world; self.objs = {}

    def defaults(self, cname, rng):
        out = {}
        if cname == "AllD" and rng.random() < 0.5:
            return {f[0]: f[3]["default"] for f in self.w["classes"][cname]["fields"]}
        for f in self.w["classes"][cname]["fields"]:
            if f[1] in ("scalar", "string", "array"):
                out[f[0]] = fval(rng, f)
                if f[1] == "scalar" and len(f) > 3 and f[3]:
                    d = f[3].get("default", f[3].get("factory"))
                    near = d + 1e-9 * (1 + abs(d)) if f[2].startswith("Float") else (d + 1 if abs(d) >= 100000 else d)
                    out[f[0]] = rng.choice([d, d, near, near, 42, 7, 5, 9, fval(rng, f)])
            elif f[1] == "nested":
                out[f[0]] = self.defaults(f[2], rng)
            elif f[1] == "ref":
                out[f[0]] = {"ref": None}
        return out

    def resolve(self, v):
        """deep plain value (references followed)"""
        if isinstance(v, dict) and "ref" in v and len(v) == 1:
            return None if v["ref"] is None else {"->": self.resolve(self.objs[v["ref"]]["fields"]) if v["ref"] in self.objs else v["ref"]}
        if isinstance(v, dict): return {k: self.resolve(x) for k, x in v.items()}
        return v


def has_refs(world, cname):
    return any(f[1] == "ref" or (f[1] == "nested" and has_refs(world, f[2])) for f in world["classes"][cname]["fields"])


def to_ctor_vals(world, cname, vals):
    """values as the constructor takes them (nested: dict keyed by the inner class's PYTHON names; refs: None)"""
    spec = world["classes"][cname]
    out = {}
    for f in spec["fields"]:
        v = vals[f[0]]
        if f[1] == "nested":
            out[f[0]] = to_ctor_vals(world, f[2], v)      # a plain dict goes to the struct: keyed by the struct's own field names
        elif f[1] == "ref":
            out[f[0]] = None if v["ref"] is None else {"obj": v["ref"]}
        else:
            out[f[0]] = v
    return out


def gen_case(rng, nops, pid):
    world = gen_world(rng, pid)
    DYNLEN.clear(); DYNLEN.update({"b": rng.choice([0, 1, 2, 3, 5]), "v": rng.choice([0, 1, 3, 4])})
    DYNLEN["b2"] = rng.choice([x for x in [0, 1, 2, 4] if x != DYNLEN["b"]])
    M = HModel(world)
    ops = []
    def push(op):
        op["expect"] = {n: {"cls": o["cls"], "buf": o["buf"], "raw": copy.deepcopy(o["fields"])} for n, o in M.objs.items()}
        ops.append(copy.deepcopy(op))
    def new(name, cname, buf):
        vals = M.defaults(cname, rng)
        M.objs[name] = {"cls": cname, "buf": buf, "fields": vals, "movable": True}
        push({"op": "new", "name": name, "cls": cname, "buf": buf, "vals": to_ctor_vals(world, cname, vals), "pynames": pid in ("C18", "C19") and rng.random() < 0.5})
    new("i0", "Inner", "B0")
    if any(f[0] == "b2" for f in world["classes"]["Inner"]["fields"]):
        # an Inner of the SAME total size whose two variable-length parts have each other's lengths
        DYNLEN["b"], DYNLEN["b2"] = DYNLEN["b2"], DYNLEN["b"]
        new("ix", "Inner", rng.choice(["B0", "B1"]))
        DYNLEN["b"], DYNLEN["b2"] = DYNLEN["b2"], DYNLEN["b"]
    holes = pid == "C20" and rng.random() < 0.6
    if holes: push({"op": "raw_alloc", "buf": "B0", "size": rng.choice([8, 24, 40]), "name": "h0"})
    new("i1", "Inner", rng.choice(["B0", "B1", "B2"]))
    new("o", "Outer", rng.choice(["B0", "B0", "Nown_o"]))      # N..: a buffer of its own (the object sits at offset 0)
    if "Mid" in world["classes"]:
        new("m0", "Mid", rng.choice(["B0", "B0", "B1"]))      # a dressed object that has a dressed part of its own
    if "InnerD" in world["classes"]:
        new("e0", "InnerD", "B0"); new("e1", "InnerD", "B0")
    if holes:
        # the buffer is used up to its end, then a slot in the middle is released
        push({"op": "fill", "buf": "B0"}); push({"op": "raw_free", "name": "h0"})
    if rng.random() < 0.5: new("o2", "Outer", "B0")
    if pid == "C20" and rng.random() < 0.6:
        push({"op": "grow", "buf": "B0", "extra": rng.choice([8, 64, 4096])})      # the buffer has grown before anything is pickled
    spec_of = lambda c: world["classes"][c]
    # a directed prefix (C18): an object shared by two reference fields stays pinned when ONE of them is reset
    if pid == "C18" and "o2" in M.objs and any(f[1] == "ref" for f in spec_of("Outer")["fields"]) \
            and M.objs["o"]["buf"] == "B0" and rng.random() < 0.5:
        M.objs["o"]["fields"]["r"] = {"ref": "i0"}; M.objs["i0"]["movable"] = False
        push({"op": "set", "obj": "o", "via": [], "field": "r", "value": {"obj": "i0"}, "kind": "assign-ref", "refused": False})
        M.objs["o2"]["fields"]["r"] = {"ref": "i0"}
        push({"op": "set", "obj": "o2", "via": [], "field": "r", "value": {"obj": "i0"}, "kind": "assign-ref", "refused": False})
        M.objs["o"]["fields"]["r"] = {"ref": None}
        push({"op": "set", "obj": "o", "via": [], "field": "r", "value": None, "kind": "assign-null"})
        push({"op": "move", "obj": "i0", "via": [], "buf": rng.choice(["B1", "B2"]), "refused": True})
    for k in range(nops):
        r = rng.random()
        if pid == "C18" and r > 0.96:
            # the buffer grows (its storage is replaced): attributes must keep mirroring the data
            push({"op": "grow", "buf": "B0"}); continue
        outers = [n for n, o in M.objs.items() if o["cls"] == "Outer"]
        inners = [n for n, o in M.objs.items() if o["cls"] == "Inner" and not o.get("anon")]
        if pid == "C19" and r < 0.3:
            src = rng.choice([n for n, o in M.objs.items() if not o.get("anon")])
            name = "d%d" % k
            M.objs[name] = {"cls": M.objs[src]["cls"], "buf": "B0", "fields": copy.deepcopy(M.objs[src]["fields"]), "movable": True}
            push({"op": "to_dict_roundtrip", "src": src, "name": name, "buf": "B0"})
        elif pid == "C20" and r < 0.36 and any(n.startswith("p") for n in M.objs):
            # the restored buffer is a working buffer: it grows (by little or by much) and everything stays
            push({"op": "grow_obj", "obj": rng.choice([n for n in M.objs if n.startswith("p")]), "extra": rng.choice([8, 8, 24, 64, 5000])})
        elif pid == "C20" and r < 0.3:
            pool = [n for n, o in M.objs.items() if not o.get("anon")]
            names = rng.sample(pool, rng.randint(1, min(3, len(pool))))
            new_names = ["p%d_%s" % (k, n) for n in names]
            for n, nn in zip(names, new_names):
                M.objs[nn] = {"cls": M.objs[n]["cls"], "buf": "P%d_%s" % (k, M.objs[n]["buf"]), "fields": copy.deepcopy(M.objs[n]["fields"]), "movable": True, "of": n}
            push({"op": "pickle", "names": names, "new_names": new_names, "raw": rng.random() < 0.5, "protocol": rng.choice([None, None, 0, 1, 2, 5]),
                  "with_parts": rng.random() < 0.5})
        elif r < 0.40:
            # scalar / string / whole nplike array / element of nplike, at the top or through a nested dressed part
            n = rng.choice([n for n, o in M.objs.items() if not o.get("anon")]); o = M.objs[n]
            via = []; cname = o["cls"]; fields = o["fields"]
            if cname == "Outer" and rng.random() < 0.5:
                f = rng.choice([f for f in spec_of("Outer")["fields"] if f[1] == "nested" and f[2] == "Inner"])
                via = [spec_of("Outer").get("rename", {}).get(f[0], f[0])]; cname = "Inner"; fields = fields[f[0]]
            cands = [f for f in spec_of(cname)["fields"] if f[1] in ("scalar", "string", "array")]
            f = rng.choice(cands)
            if f[1] == "array" and rng.random() < 0.5 and fields[f[0]] and (not isinstance(fields[f[0]][0], list) or fields[f[0]][0]):
                cur = fields[f[0]]
                idx = [rng.randrange(len(cur))]
                while isinstance(cur[idx[-1]], list):
                    cur = cur[idx[-1]]; idx.append(rng.randrange(len(cur)))
                x = rng.choice([9.0, -1.0, 0.25])
                cur[idx[-1]] = x
                push({"op": "set_item", "obj": n, "via": via, "field": f[0], "index": idx, "value": x})
            else:
                if f[1] == "array":
                    def like(v): return [like(x) for x in v] if v and isinstance(v[0], list) else [rng.choice([0.0, 4.0, -8.5]) for _ in v]
                    x = like(fields[f[0]])
                    if x == [] : continue
                elif f[1] == "string":
                    x = rng.choice([s for s in ["", "a", "hi", "hello"] if len(s) + 9 <= ((len(fields[f[0]]) + 9 + 7) & -8)])
                else:
                    x = fval(rng, f)
                fields[f[0]] = x
                push({"op": "set", "obj": n, "via": via, "field": f[0], "value": x})
        elif r < 0.55 and outers and inners:
            # a dressed object assigned to a plain nested field: an independent copy is stored
            n = rng.choice(outers)
            f = rng.choice([f for f in spec_of("Outer")["fields"] if f[1] == "nested" and (f[2] == "Inner" or (f[2] == "Mid" and "m0" in M.objs))])
            src = rng.choice(inners) if f[2] == "Inner" else "m0"
            M.objs[n]["fields"][f[0]] = copy.deepcopy(M.objs[src]["fields"])
            push({"op": "set", "obj": n, "via": [], "field": f[0], "value": {"obj": src}, "kind": "assign-copy"})
        elif r < 0.70 and pid != "C20" and outers and inners and any(f[1] == "ref" for f in spec_of("Outer")["fields"]):
            # a dressed object assigned to a reference field: shared; refused across buffers (and then nothing changes)
            n = rng.choice(outers); src = rng.choice(inners)
            if rng.random() < 0.3:       # the reference is reset: it denotes nothing afterwards
                M.objs[n]["fields"]["r"] = {"ref": None}
                push({"op": "set", "obj": n, "via": [], "field": "r", "value": None, "kind": "assign-null"}); continue
            same = M.objs[src]["buf"] == M.objs[n]["buf"]
            if same:
                M.objs[n]["fields"]["r"] = {"ref": src}; M.objs[src]["movable"] = False
            push({"op": "set", "obj": n, "via": [], "field": "r", "value": {"obj": src}, "kind": "assign-ref", "refused": not same})
        elif r < 0.82:
            src = rng.choice([n for n, o in M.objs.items() if not o.get("anon")]); name = "c%d" % k
            tgt = rng.choice([None, "B0", "B1", "B2"])
            sb = M.objs[src]["buf"]
            nb = tgt or ("N%d" % k)       # no target: a new buffer of the same context
            if has_refs(world, M.objs[src]["cls"]) and nb != sb and M.resolve(M.objs[src]["fields"]) != M.objs[src]["fields"] and False:
                continue
            # copy: same buffer -> references keep their referent; another buffer -> the referents are duplicated
            fields = copy.deepcopy(M.objs[src]["fields"])
            if nb != sb:
                def dup(v, cname):
                    for f in spec_of(cname)["fields"]:
                        if f[1] == "ref" and v[f[0]]["ref"] is not None:
                            an = "anon_%s_%s" % (name, f[0])
                            M.objs[an] = {"cls": "Inner", "buf": nb, "fields": copy.deepcopy(M.objs[v[f[0]]["ref"]]["fields"]), "movable": False, "anon": True}
                            v[f[0]] = {"ref": an}
                        elif f[1] == "nested": dup(v[f[0]], f[2])
                dup(fields, M.objs[src]["cls"])
            M.objs[name] = {"cls": M.objs[src]["cls"], "buf": nb, "fields": fields, "movable": True}
            push({"op": "copy", "name": name, "src": src, "buf": tgt})
        else:
            # move: the object itself (allowed iff movable and reference-free) or a nested part (always refused)
            n = rng.choice([n for n, o in M.objs.items() if not o.get("anon")]); o = M.objs[n]
            via = []
            if o["cls"] == "Outer" and rng.random() < 0.35:
                via = ["inner"]
            buf = rng.choice(["B1", "B2", "B0", "Nmv%d" % k])      # N..: a fresh, empty buffer
            refused = bool(via) or (not o["movable"]) or has_refs(world, o["cls"])
            if not refused:
                o["buf"] = buf
            push({"op": "move", "obj": n, "via": via, "buf": buf, "refused": refused})
    anon = [n for n, o in M.objs.items() if o.get("anon")]
    return {"world": world, "ops": ops, "importable": pid == "C20", "anon": anon}


def approx_eq(a, b):
    if isinstance(a, list) and isinstance(b, list):
        return len(a) == len(b) and all(approx_eq(x, y) for x, y in zip(a, b))
    if isinstance(a, (int, float)) and isinstance(b, (int, float)):
        return float(a) == float(b)
    return a == b


def check_obj(world, cname, snap, exp_fields, raw_fields, all_snaps, path):
    """returns (kind, detail) of the first discrepancy or None"""
    spec = world["classes"][cname]
    for f in spec["fields"]:
        e = snap["fields"].get(f[0])
        where = "%s.%s" % (path, f[0])
        ren = "renamed-" if f[0] in spec.get("rename", {}) else ""
        if e is None or "exc" in e:
            return ("attribute-access-raises", "%s: %s" % (where, e))
        if f[1] in ("scalar", "string", "array"):
            if not approx_eq(e["attr"], e["xo"]):
                return ("%sattribute-differs-from-buffer-data/%s" % (ren, f[1]), "%s attr=%s buffer=%s" % (where, e["attr"], e["xo"]))
            if not approx_eq(e["attr"], exp_fields[f[0]]):
                return ("%svalue-not-as-expected/%s" % (ren, f[1]), "%s is %s expected %s" % (where, e["attr"], exp_fields[f[0]]))
        elif f[1] == "nested":
            if e.get("attr") is None and "attr_off" not in e:
                return ("nested-part-missing", where)
            if e["attr_off"] != e["xo_off"] or e["attr_buf"] != e["xo_buf"]:
                return ("%snested-dressed-part-not-at-its-field" % ren, "%s dressed at %s, field at %s" % (where, e["attr_off"], e["xo_off"]))
            if e["attr_buf"] != snap["buf"]:
                return ("%snested-dressed-part-in-another-buffer" % ren, where)
            if not e.get("dressed"):
                return ("%snested-part-not-dressed" % ren, where)
            r = check_obj(world, f[2], e["child"], exp_fields[f[0]], raw_fields[f[0]], all_snaps, where)
            if r: return r
        elif f[1] == "ref":
            rid = raw_fields[f[0]]["ref"]
            if rid is None:
                if e.get("attr") is not None or e.get("xo") is not None or "attr_off" in e:
                    return ("null-reference-not-none", "%s: %s" % (where, e))
            else:
                if "attr_off" not in e:
                    return ("reference-is-none", where)
                if e["attr_off"] != e["xo_off"] or e["attr_buf"] != e["xo_buf"]:
                    return ("reference-attribute-differs-from-buffer-reference", "%s attribute denotes offset %s, buffer reference %s" % (where, e["attr_off"], e["xo_off"]))
                tgt = all_snaps.get(rid)
                if tgt is not None and "off" in tgt and (tgt["off"] != e["xo_off"] or tgt["buf"] != e["xo_buf"]):
                    return ("reference-does-not-denote-the-assigned-object", "%s -> %s, object %s at %s" % (where, e["xo_off"], rid, tgt["off"]))
    return None


def judge_case(pid, c, r):
    if r.get("stage"):
        return [("%s/harness-problem" % pid, r.get("msg", "") + " " + r.get("tb", "")[-300:], -1)]
    world = c["world"]
    for k, (op, st) in enumerate(zip(c["ops"], r["steps"])):
        kind = op["op"] + ("-" + op["kind"] if "kind" in op else "")
        mine = {"C18": op["op"] in ("new", "set", "set_item", "copy", "move", "grow"), "C19": op["op"] == "to_dict_roundtrip",
                "C20": op["op"] in ("pickle", "set", "set_item", "grow_obj")}[pid]
        if op["op"] in ("set", "set_item") and pid == "C20":
            mine = op["obj"].startswith("p")       # usability of unpickled objects
        refused = op.get("refused", False)
        if refused:
            if st["ok"]:
                return [("%s/%s-not-refused" % (pid, kind), "the operation should have been refused", k)] if mine else []
            if st.get("exc") != "MemoryError":
                return [("%s/%s-refused-with-%s" % (pid, kind, st.get("exc")), st.get("msg"), k)] if mine else []
        elif not st["ok"]:
            return [("%s/%s-raises-%s" % (pid, kind, st.get("exc")), st.get("msg"), k)] if mine else []
        for nm, ex in op["expect"].items():
            if nm in c.get("anon", []): continue
            sn = st["objs"].get(nm)
            if sn is None or "fields" not in sn:
                return [("%s/object-unusable-after-%s" % (pid, kind), "%s: %s" % (nm, sn), k)] if mine else []
            if not nm.startswith("p") and not ex["buf"].startswith("P") and sn.get("bufname") != ("other" if ex["buf"].startswith("N") else ex["buf"]):
                return [("%s/object-in-wrong-buffer-after-%s" % (pid, kind), "%s in %s expected %s" % (nm, sn.get("bufname"), ex["buf"]), k)] if mine else []
            if sn["off"] != sn["xo_off"]:
                return [("%s/dressed-offset-differs" % pid, nm, k)] if mine else []
            d = check_obj(world, ex["cls"], sn, ex["fields"] if False else flatten_expect(world, ex["cls"], ex["raw"], op["expect"]), ex["raw"], st["objs"], nm)
            if d:
                return [("%s/%s/after-%s%s" % (pid, d[0], kind, "-refused" if refused else ""), d[1], k)] if mine else []
        if op["op"] == "to_dict_roundtrip" and pid == "C19":
            src = op["expect"][op["src"]]
            spec = world["classes"][src["cls"]]
            keys = st.get("dict_keys", [])
            for f in spec["fields"]:
                if f[1] == "scalar" and len(f) > 3 and f[3]:
                    dflt = f[3].get("default", f[3].get("factory"))
                    pn = spec.get("rename", {}).get(f[0], f[0])
                    present = pn in keys
                    if (src["raw"][f[0]] == dflt) == present:
                        return [("C19/declared-default-%s" % ("not-elided" if present else "elided-although-different"), "%s=%s default %s keys %s" % (f[0], src["raw"][f[0]], dflt, keys), k)]
        if op["op"] == "pickle" and pid == "C20":
            names = op["names"]
            want = [[op["expect"][a]["buf"] == op["expect"][b]["buf"] for b in names] for a in names]
            got = st.get("same_buffer")
            for i in range(len(names)):
                for j in range(len(names)):
                    if want[i][j] and not got[i][j]:
                        return [("C20/objects-that-shared-a-buffer-no-longer-share", "%s %s" % (names[i], names[j]), k)]
            if any(st.get("shares_with_original", [])):
                return [("C20/unpickled-object-still-uses-the-original-buffer", str(st.get("shares_with_original")), k)]
            if not st.get("alloc_ok"):
                return [("C20/restored-buffer-is-not-a-working-allocator", str(st.get("alloc_detail")), k)]
            for cn, pn, samebuf, sameoff in st.get("parts_in_place", []):
                if not (samebuf and sameoff):
                    return [("C20/nested-part-pickled-with-its-container-no-longer-inside-it", "%s.%s: same buffer %s, at its field %s" % (cn, pn, samebuf, sameoff), k)]
    return []


def flatten_expect(world, cname, raw, expect_all):
    """expected plain values of an object's own fields (nested parts inline; references left to the identity check)"""
    out = {}
    for f in world["classes"][cname]["fields"]:
        if f[1] == "nested": out[f[0]] = flatten_expect(world, f[2], raw[f[0]], expect_all)
        elif f[1] == "ref": out[f[0]] = raw[f[0]]
        else: out[f[0]] = raw[f[0]]
    return out



# ------------------------------------------------------------------ C19: observed dictionaries judged in Coq
def _num(ftype, x):
    """a number as the integer the Coq model compares: ints as they are, floats by their bit pattern"""
    import struct as _st
    if ftype.startswith("Float"):
        x = float(x)
        if x == 0.0: x = 0.0
        return _st.unpack("<q", _st.pack("<d", x))[0]
    return int(x)


def _flat(ftype, v):
    if isinstance(v, (list, tuple)):
        out = []
        for x in v: out += _flat(ftype, x)
        return out
    return [_num(ftype, v)]


def kind_term(world, cname):
    spec = world["classes"][cname]
    out = []
    for i, f in enumerate(spec["fields"]):
        k = f[1]
        if k == "scalar":
            d = 0
            if len(f) > 3 and f[3]: d = f[3].get("default", f[3].get("factory"))
            t = "KNum %s" % zlit(_num(f[2], d))
        elif k == "array":
            if all(x is not None for x in f[3]):
                n = 1
                for x in f[3]: n *= x
                t = "KArrFixed %s" % zlist([_num(f[2], 0)] * n)
            else:
                t = "KArrDyn"
        elif k == "string":
            t = "KArrDyn"
        elif k == "nested":
            t = "KNested %s" % kind_term(world, f[2])
        else:
            raise ValueError(k)
        out.append("(%s, %s)" % (natlit(i), t))
    return "[" + "; ".join(out) + "]"


def oval_term(world, cname, raw):
    spec = world["classes"][cname]
    out = []
    for f in spec["fields"]:
        v = raw[f[0]]
        if f[1] == "scalar": out.append("ONum %s" % zlit(_num(f[2], v)))
        elif f[1] == "array": out.append("OArr %s" % zlist(_flat(f[2], v)))
        elif f[1] == "string": out.append("OArr %s" % zlist(list(v.encode("utf8"))))
        elif f[1] == "nested": out.append("OObj %s" % oval_term(world, f[2], v))
    return "[" + "; ".join(out) + "]"


def dv_term(world, cname, d):
    spec = world["classes"][cname]
    byname = {spec.get("rename", {}).get(f[0], f[0]): (i, f) for i, f in enumerate(spec["fields"])}
    out = []
    for key, x in d.items():
        if key not in byname:
            out.append("(%s, DNum 0)" % natlit(900 + len(out))); continue       # a key that names no field: rejected by the judgement
        i, f = byname[key]
        if f[1] == "nested" and isinstance(x, dict): t = "DDict %s" % dv_term(world, f[2], x)
        elif f[1] == "string" and isinstance(x, str): t = "DArr %s" % zlist(list(x.encode("utf8")))
        elif f[1] == "array" and isinstance(x, (list, tuple)): t = "DArr %s" % zlist(_flat(f[2], x))
        elif f[1] == "scalar" and isinstance(x, (int, float)) and not isinstance(x, bool): t = "DNum %s" % zlit(_num(f[2], x))
        else: t = "DDict []" if f[1] != "nested" else "DNum 0"                  # wrong kind of entry: rejected
        out.append("(%s, %s)" % (natlit(i), t))
    return "[" + "; ".join(out) + "]"


def dict_cases_file(items):
    body = "From Coq Require Import ZArith List.\nImport ListNotations.\nFrom XO Require Import AllocSpec DictForm.\nOpen Scope Z_scope.\n"
    body += "Definition cs : list dcase := [\n  " + ";\n  ".join("mkDictCase %s %s %s" % it for it in items) + "\n].\n"
    body += 'Goal True. idtac "@@dict". exact I. Qed.\nEval vm_compute in (failing dict_ok 0%nat cs).\n'
    return body

def run(ctx):
    pid = ctx.pid
    bud = BUDGET[ctx.tier]
    obl = check_obligations(ctx)
    rng = random.Random(ctx.seed + int(pid[1:]))
    cdir = os.path.join(VERIF, "corpus", "hybrid_" + pid)
    corpus = [json.load(open(os.path.join(cdir, f))) for f in sorted(os.listdir(cdir))] if os.path.isdir(cdir) else []
    cases = list(corpus)
    while len(cases) < bud["n"] + len(corpus):
        cases.append(gen_case(rng, bud["nops"], pid))
    sh = (len(cases) + bud["shards"] - 1) // bud["shards"]
    results = []
    for r in run_impl_parallel(ctx, "hybrid", [{"cases": cases[i:i + sh]} for i in range(0, len(cases), sh)]):
        results += r["results"]
    bysig = {}
    njson = 0
    if pid == "C19":
        import gen_types as G, struct as _struct
        jc = []
        while len(jc) < (400 if ctx.tier == "quick" else 6000):
            t = G.gen_type(rng, rng.randint(1, 3))
            def ok(t, top=True):
                if t["k"] == "struct": return all(ok(ft, False) for _, ft in t["fields"])
                if t["k"] == "array": return len(t["shape"]) == 1 and ok(t["item"], False)
                return t["k"] in ("scalar", "string") and not top
            if not ok(t): continue
            v = G.gen_value(rng, t)
            def finite(v):
                if isinstance(v, dict): return all(finite(x) for x in v.values())
                if isinstance(v, list) and v and isinstance(v[0], (dict, list)): return all(finite(x) for x in v)
                return True
            # NaN payload bits are not preserved by any text form: replace NaN only
            def fix(t, v):
                if t["k"] == "scalar" and t["name"].startswith("Float"):
                    x = _struct.unpack(G.FMT[t["name"]], bytes(v))[0]
                    return list(_struct.pack(G.FMT[t["name"]], 1.5)) if x != x else v       # NaN payloads are not comparable; +-inf must round trip
                if t["k"] == "struct": return {"f": [fix(ft, x) for (_, ft), x in zip(t["fields"], v["f"])]}
                if t["k"] == "array": return {"shape": v["shape"], "items": [fix(t["item"], x) for x in v["items"]]}
                if t["k"] == "string" and "cap" in v: return {"s": [], "size": 16}
                return v
            jc.append({"type": t, "value": fix(t, v)})
        jr = run_impl(ctx, "hybrid", {"json_cases": jc}, tag="json")["results"]
        njson = len(jc)
        for c1, r1 in zip(jc, jr):
            exp = G.strip_sizes(c1["value"])
            kind = c1["type"]["k"]
            if "exc" in r1:
                sig = "C19/json-roundtrip-raises-%s/%s" % (r1["exc"], kind); what = r1.get("msg")
            elif G.strip_sizes(r1["second"]) != exp or G.strip_sizes(r1["first"]) != exp:
                sig = "C19/json-roundtrip-differs/%s" % kind; what = "object rebuilt from its JSON form differs"
            else:
                continue
            if sig not in bysig or len(json.dumps(c1)) < len(json.dumps(bysig[sig][3])):
                bysig[sig] = (-1, what, -1, c1)
    for i, (c, r) in enumerate(zip(cases, results)):
        for sig, what, k in judge_case(pid, c, r):
            if sig not in bysig or k < bysig[sig][2]:
                bysig[sig] = (i, what, k)
    ndict = 0
    if pid == "C19":
        # every dictionary the real to_dict produced, judged by the certified order-insensitive judgement DictForm.dict_ok
        # against the class description and the value the model holds for the source object
        items = []; where = []
        for i, (c, r) in enumerate(zip(cases, results)):
            if "steps" not in r: continue
            for k, (op, st) in enumerate(zip(c["ops"], r["steps"])):
                if op["op"] == "to_dict_roundtrip" and st.get("ok") and "dict" in st:
                    src = op["expect"][op["src"]]
                    try:
                        items.append((kind_term(c["world"], src["cls"]), oval_term(c["world"], src["cls"], src["raw"]), dv_term(c["world"], src["cls"], st["dict"])))
                        where.append((i, k))
                    except (ValueError, KeyError, TypeError):
                        pass
        SHD = 150
        files = [("cases_C19d_%d" % (j // SHD), dict_cases_file(items[j:j + SHD])) for j in range(0, len(items), SHD)]
        dres = coq_eval_many(ctx, files)
        for j in range(0, len(items), SHD):
            rc, out = dres["cases_C19d_%d" % (j // SHD)]
            pairs = parse_pairs(out) if rc == 0 else None
            if pairs is None:
                bysig.setdefault("C19/dict-cases-do-not-evaluate", (-1, out[-800:], -1, {"broken": True})); continue
            ndict += len(items[j:j + SHD])
            for a, code in pairs:
                i, k = where[j + a]
                sig = "C19/dictionary-not-as-the-model-derives"
                if sig not in bysig or k < bysig[sig][2]:
                    bysig[sig] = (i, "to_dict gave %s" % json.dumps(results[i]["steps"][k].get("dict"))[:300], k)
    nplain = 0
    if pid == "C20":
        extra, nplain = plain_pickles(ctx, rng, 150 if ctx.tier == "quick" else 3000)
    else:
        extra = []
    found = False
    for sig, what, rep in extra:
        found = True
        report(ctx, sig, what, rep)
    for sig, tup in sorted(bysig.items()):
        found = True
        if len(tup) == 4:
            report(ctx, sig, tup[1], dict(kind="concrete", tie="K-DICT-json", json_case=tup[3])); continue
        i, what, k = tup
        c = dict(cases[i]); c["ops"] = c["ops"][:k + 1] if k >= 0 else c["ops"]
        obs = results[i]["steps"][k] if k >= 0 and "steps" in results[i] else results[i]
        report(ctx, sig, what, dict(kind="concrete", tie={"C18": "K-HYBRID", "C19": "K-DICT", "C20": "K-PICKLE"}[pid], case=c, failing_step=k,
                                    observed={kk: vv for kk, vv in obs.items() if kk != "objs"}, how_to_replay="./check %s --replay <this file>" % pid))
    broken_obligations_violation(ctx, obl, found)
    hist = collections.Counter(); nst = 0
    for c in cases:
        for op in c["ops"]:
            nst += 1; hist["op:" + op["op"] + ("-" + op["kind"] if "kind" in op else "") + ("-refused" if op.get("refused") else "")] += 1
        hist["world:" + "+".join(c["world"]["order"]) + ("+refs" if any(f[1] == "ref" for f in c["world"]["classes"]["Outer"]["fields"]) else "")] += 1
    distinct = set(hashlib.sha1(json.dumps([c["world"], [{k: v for k, v in o.items() if k != "expect"} for o in c["ops"]]], sort_keys=True).encode()).hexdigest() for c in cases)
    cov = dict(evaluations=nst + njson + nplain, distinct_nontrivial=len(distinct), histories=len(cases), json_roundtrips=njson, plain_objects_pickled_and_judged_in_coq=nplain, dictionaries_judged_in_coq=ndict,
               rule="generated HybridClass definitions (scalars, strings, scalar arrays 1-D dynamic and 2-D static, nested hybrid classes, references to hybrid classes directly and inside a nested class, renamed fields, declared defaults / default factories) and histories of {construct, set scalar / string / whole array / array element at the top or through a nested dressed part, assign a dressed object to a plain field (copy) or to a reference field (share; refused across buffers), copy to same / other buffer / other context, move (refused for nested parts, non-movable and reference-bearing objects)%s}. After every step every attribute of every dressed object (recursively) is compared with the data of its _xobject and with the model's expectation; offsets and buffer identities of nested parts and referents are compared." % {"C18": "", "C19": ", to_dict -> from_dict", "C20": ", pickle.dumps/loads of groups of objects, then further writes on the restored objects"}[pid],
               samples=[{"world": cases[-1]["world"], "ops": [{k: v for k, v in o.items() if k != "expect"} for o in cases[-1]["ops"][:6]]}],
               distribution=dict(sorted(hist.items())), corpus_cases=len(corpus))
    level = "proof"
    return finish(ctx, level, obl, cov, ["hybrid attributes that are nplike arrays are numpy views; values used are exactly representable",
                                         "pickle's object-graph traversal (one copy per identity) is Python's behaviour: assumed (C20 partial)"])


def plain_pickles(ctx, rng, n):
    """plain (undressed) xobjects of generated types -- every axis order of 2-D / 3-D arrays with scalar or string
    items, nested structs, strings -- are pickled and restored: the restored object must read as the original,
    through its handle and through a fresh view, keep its offset and size, own separate storage, and its bytes
    in the restored buffer must be the documented image of the value (layout_ok evaluated in Coq)."""
    import c_layout as L, gen_types as G
    cases = [dict(c, with_sibling=(i % 3 == 0)) for i, c in enumerate(L.systematic_cases(rng)) if c["form"] == "py"]
    while len(cases) < n:
        c = L.gen_case(rng, 3)
        if c["type"]["k"] in ("string", "scalar"): continue
        c = {"type": c["type"], "value": c["value"], "form": "py", "prep": c["prep"], "with_sibling": rng.random() < 0.3, "refs": bool(c.get("refs"))}
        if "cap" in json.dumps(c["value"]): continue
        cases.append(c)
    sh = (len(cases) + 7) // 8
    results = []
    for r in run_impl_parallel(ctx, "pickle_plain", [{"cases": cases[i:i + sh]} for i in range(0, len(cases), sh)]):
        results += r["results"]
    bysig = {}
    def note(sig, what, i):
        if sig not in bysig or L.size_case(cases[i]) < L.size_case(cases[bysig[sig][0]]):
            bysig[sig] = (i, what)
    idx = []
    for i, (c, r) in enumerate(zip(cases, results)):
        st = L.sig_type(c["type"])
        if r.get("stage") == "pickle":
            note("C20/plain/pickling-raises-%s/%s" % (r["exc"], st), r.get("msg"), i); continue
        if r.get("stage"):
            continue
        if "readback_exc" in r:
            note("C20/plain/restored-object-read-raises-%s/%s" % (r["readback_exc"], st), r.get("readback_msg"), i); continue
        if r["readback"] != r["orig_read"]:
            note("C20/plain/restored-object-reads-differently/%s" % st, "the unpickled object does not read as the pickled one", i); continue
        if "view_exc" in r or r.get("view_readback") != r["readback"]:
            note("C20/plain/view-of-restored-object-differs/%s" % st, "a view rebuilt from the restored (buffer, offset) reads differently", i); continue
        if r.get("caches") != r.get("orig_caches"):
            note("C20/plain/restored-shape-strides-or-offsets-differ/%s" % st, "caches %s vs %s" % (json.dumps(r.get("caches"))[:150], json.dumps(r.get("orig_caches"))[:150]), i); continue
        if r["off"] != r["orig_off"] or r["size"] != r["orig_size"]:
            note("C20/plain/offset-or-size-changed/%s" % st, "offset %s size %s, before %s %s" % (r["off"], r["size"], r["orig_off"], r["orig_size"]), i); continue
        w = r.get("write_through_view")
        if "write_through_view_exc" in r:
            note("C20/plain/write-through-array-view-of-restored-object-raises/%s" % st, r["write_through_view_exc"], i); continue
        if w is not None and (w["item_reads"] != w["wrote"] or w["view_item_reads"] != w["wrote"]):
            note("C20/plain/write-through-array-view-of-restored-object-not-seen/%s" % st, "wrote %s through to_nplike(); item access reads %s, a fresh view reads %s" % (w["wrote"], w["item_reads"], w["view_item_reads"]), i); continue
        if "restored_context_exc" in r:
            note("C20/plain/context-of-restored-object-unusable", r["restored_context_exc"], i); continue
        if r.get("copy_in_restored_context") is False:
            note("C20/plain/copy-in-restored-context-differs/%s" % st, "T(restored, _context=restored context) reads differently", i); continue
        if r["shares_storage_with_original"]:
            note("C20/plain/restored-object-shares-storage-with-the-original", "same buffer object", i); continue
        if r.get("sibling_same_buffer") is False:
            note("C20/plain/objects-that-shared-a-buffer-no-longer-share", "two objects of one buffer pickled together", i); continue
        idx.append(i)
    SH = 60
    pidx = [i for i in idx if not cases[i].get("refs")]; ridx = [i for i in idx if cases[i].get("refs")]
    files = [("cases_C20p_%d" % (j // SH), L.cases_file([(cases[i], results[i]) for i in pidx[j:j + SH]])) for j in range(0, len(pidx), SH)]
    files += [("cases_C20r_%d" % (j // 25), L.ref_cases_file([(cases[i], results[i]) for i in ridx[j:j + 25]])) for j in range(0, len(ridx), 25)]
    res = coq_eval_many(ctx, files)
    out = []
    for fam, ids, sh in (("cases_C20p_%d", pidx, SH), ("cases_C20r_%d", ridx, 25)):
        for j in range(0, len(ids), sh):
            rc, o = res[fam % (j // sh)]
            pairs = parse_pairs(o) if rc == 0 else None
            if pairs is None:
                out.append(("C20/plain/cases-do-not-evaluate", "cases file does not evaluate", dict(kind="broken-tie", log=o[-1200:]))); continue
            for a, code in pairs:
                i = ids[j + a]
                note("C20/plain/restored-bytes-not-the-documented-image/code%d/%s" % (code, L.sig_type(cases[i]["type"])), "layout judgement code %d on the restored buffer" % code, i)
    for sig, (i, what) in sorted(bysig.items()):
        out.append((sig, what, dict(kind="concrete", tie="K-PICKLE-plain", plain_case=cases[i], observed={k: v for k, v in results[i].items() if k != "after"},
                                    how_to_replay="./check C20 --replay <this file>")))
    return out, len(cases)


def replay(ctx, path):
    r = json.load(open(path))
    if r.get("kind") != "concrete":
        print("nothing to execute:", r.get("what")); return 1
    if "plain_case" in r:
        res = run_impl(ctx, "pickle_plain", {"cases": [r["plain_case"]]})["results"][0]
        print(json.dumps({k: v for k, v in res.items() if k != "after"})[:1500])
        bad = res.get("stage") == "pickle" or "readback_exc" in res or res.get("readback") != res.get("orig_read") or res.get("caches") != res.get("orig_caches") or res.get("view_readback") != res.get("readback")
        print("REPRODUCED" if bad else "not reproduced (byte-level judgement: run the check)")
        return 1 if bad else 0
    c = r["case"]
    res = run_impl(ctx, "hybrid", {"cases": [c]})["results"][0]
    j = judge_case(ctx.pid, c, res)
    for st in res.get("steps", []):
        print(json.dumps({k: v for k, v in st.items() if k != "objs"})[:300])
    print("REPRODUCED %s" % j if j else "not reproduced")
    return 1 if j else 0
