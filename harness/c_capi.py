"""C02 / C07 / C15: generated C accessors.
 (T) the C text emitted for every access path of generated types is translated into straight-line programs and
     validated inside Coq against the documented layout's address expression (CSpec.cfun_ok, certified by validate_sound);
 (K-CAPI-EXEC) the real accessors are compiled and called on real objects and compared with the Python accessors
     (C02: get/getp/len/typeid/member; C07: set);
 C15: the same for the four specialisations; all must be the same program; OpenCL pointers __global; host compiler accepts."""
import json, os, hashlib, collections, random, subprocess, shutil
from core import *
import gen_types as G
import c_layout as L

BUDGET = {"quick": dict(n=160, depth=3, n_exec=24, shards=12, n_syntax=8), "thorough": dict(n=900, depth=4, n_exec=80, shards=16, n_syntax=60)}
TARGETS = ["cpu_serial", "cpu_openmp", "opencl", "cuda"]
ACT = {"get": "AGet", "set": "ASet", "getp": "AGetp", "len": "ALen", "typeid": "ATypeid", "member": "AMember"}


def cexp(e):
    k = e[0]
    if k == "const": return "EConst %s" % zlit(e[1])
    if k == "idx": return "EIdx %s" % natlit(e[1])
    if k == "off": return "EOff"
    if k == "var": return "EVar %s" % natlit(e[1])
    if k == "load": return "ELoad (%s)" % cexp(e[1])
    if k == "add": return "EAdd (%s) (%s)" % (cexp(e[1]), cexp(e[2]))
    if k == "mul": return "EMul (%s) (%s)" % (cexp(e[1]), cexp(e[2]))
    raise ValueError(k)


def stmt(s):
    if s[0] == "decl": return "CDecl %s (%s)" % (natlit(s[1]), cexp(s[2]))
    if s[0] == "set": return "CSet (%s)" % cexp(s[1])
    return "CAddTo (%s)" % cexp(s[1])


def cfun_term(t, f):
    steps = "; ".join({"f": "PField %s", "i": "PIndex", "r": "PRef"}[s[0]] % ((natlit(s[1]),) if s[0] == "f" else ()) for s in f["path"])
    final = f["final"]
    if f["action"] == "typeid":
        final = ["load", final]     # the accessor returns the VALUE stored there
    return "mkCF (%s) [%s] %s [%s] (%s)" % (G.ty_term(t), steps, ACT[f["action"]], "; ".join(stmt(s) for s in f["body"]), cexp(final))


def pair_term(f, tg):
    a = f["variants"]["cpu_serial"]; b = f["variants"][tg]
    fin = lambda v: (["load", v["final"]] if f["action"] == "typeid" else v["final"])
    return "mkCP [%s] (%s) [%s] (%s)" % ("; ".join(stmt(s) for s in a["body"]), cexp(fin(a)), "; ".join(stmt(s) for s in b["body"]), cexp(fin(b)))


def pairs_file(items):
    body = "From Coq Require Import ZArith List.\nImport ListNotations.\nFrom XO Require Import Types CExpr CSpec AllocSpec.\nOpen Scope Z_scope.\n"
    body += "Definition cs : list cpair := [\n  " + ";\n  ".join(pair_term(f, tg) for f, tg in items) + "\n].\n"
    body += 'Goal True. idtac "@@capi". exact I. Qed.\nEval vm_compute in (failing cpair_ok 0%nat cs).\n'
    return body


def cases_file(items):
    body = "From Coq Require Import ZArith List.\nImport ListNotations.\nFrom XO Require Import Types CExpr CSpec AllocSpec.\nOpen Scope Z_scope.\n"
    body += "Definition cs : list cfun := [\n  " + ";\n  ".join(cfun_term(t, f) for t, f in items) + "\n].\n"
    body += 'Goal True. idtac "@@capi". exact I. Qed.\nEval vm_compute in (failing cfun_ok 0%nat cs).\n'
    return body


def gen_case(rng, depth):
    t = G.gen_type(rng, rng.randint(1, depth), allow_refs=True)
    while t["k"] == "string":
        t = G.gen_type(rng, rng.randint(1, depth), allow_refs=True)
    v = G.gen_value(rng, t)
    base = L.gen_case(rng, 1)
    prep = dict(base["prep"]); prep["cap"] = max(prep["cap"], 64)
    return {"type": t, "value": v, "prep": prep, "seed": rng.randrange(1 << 30)}


def systematic_cases(rng):
    """(a) paths through three and four nested arrays; (b) types that share their generated NAME but not their
    layout (same shape in another axis order; a struct re-defined with other fields), translated and executed one
    after the other in ONE process: anything remembered per name must not leak from one to the other"""
    F64 = {"k": "scalar", "name": "Float64"}; I32 = {"k": "scalar", "name": "Int32"}; I64 = {"k": "scalar", "name": "Int64"}
    arr = lambda item, shape, order=None: {"k": "array", "item": item, "shape": shape, "order": order or list(range(len(shape)))}
    st = lambda name, fields: {"k": "struct", "name": name, "fields": fields}
    ua = st("SUa", [["x", F64]]); ub = st("SUb", [["p", I64], ["q", I64]])
    UN = {"k": "union", "name": "U" + hashlib.sha1(json.dumps([ua, ub], sort_keys=True).encode()).hexdigest()[:8], "members": [ua, ub]}
    types = [
        arr(arr(arr(F64, [2]), [3]), [4]),
        arr(arr(arr(I32, [None]), [None]), [None]),
        arr(arr(arr(arr(I32, [2]), [None]), [2]), [None]),
        arr(st("SRow", [["k", I64], ["cells", arr(st("SCell", [["w", arr(F64, [None])], ["q", I32]]), [None])]]), [None]),
        arr(I32, [3, 4]), arr(I32, [3, 4], [1, 0]),
        arr(F64, [None, None]), arr(F64, [None, None], [1, 0]),
        arr({"k": "string"}, [2, 3]), arr({"k": "string"}, [2, 3], [1, 0]),
        arr(I32, [2, 3, 2], [0, 1, 2]), arr(I32, [2, 3, 2], [2, 0, 1]), arr(I32, [2, 3, 2], [1, 2, 0]),
        st("Track", [["pos", arr(F64, [3])], ["charge", I64]]), st("Track", [["pos", arr(F64, [6])], ["charge", I64]]),
        arr(st("Point", [["x", F64], ["y", F64]]), [None]), arr(st("Point", [["x", F64], ["y", F64], ["z", F64]]), [None]),
        st("Holder", [["a", I32], ["p", arr(I64, [None])]]), st("Holder", [["a", I32], ["s", {"k": "string"}], ["p", arr(I64, [None])]]),
        # one access path through TWO arrays whose strides live in the buffer (each brings its own stride variables)
        arr(st("SGrid", [["k", I64], ["m", arr(F64, [None, None])]]), [None, None]),
        arr(st("SGrid3", [["m", arr(I32, [None, 2], [1, 0])], ["k", I64]]), [2, None], [1, 0]),
        # a dynamically sized struct with several dynamic fields nested INLINE behind static fields (a pending constant
        # offset when the by-offset fields are reached), also as item of an array and two levels deep
        st("SOuterIn", [["n", I64], ["m", F64], ["inner", st("SInnerDyn", [["x", I64], ["u", arr(F64, [None])], ["v", arr(I32, [None])], ["w", {"k": "string"}]])], ["t", I32]]),
        arr(st("SInnerDyn2", [["x", I32], ["u", {"k": "string"}], ["y", F64], ["v", arr(I64, [None])]]), [None]),
        st("SOuter2", [["a", I32], ["mid", st("SMid2", [["b", I64], ["in2", st("SIn2", [["c", I32], ["p", arr(F64, [None])], ["q", arr(F64, [None])]])], ["e", F64]])]]),
        # union slots reached through loads (in variable-size items, behind a table entry, behind a reference, in a 2-D array)
        arr(st("SNodeU", [["w", arr(F64, [None])], ["u", UN]]), [None]),
        st("STwoU", [["a", arr(F64, [None])], ["us", arr(UN, [None])], ["k", I64]]),
        st("SHoldRU", [["n", I64], ["r", {"k": "ref", "target": st("SInU", [["x", I64], ["u", UN]])}]]),
        arr(UN, [None, None]),
        # a string created from a capacity that is no multiple of 8, followed by other variable-size parts
        st("SCapStr", [["name", {"k": "string"}], ["v", arr(F64, [None])], ["z", I64], ["w", arr(I32, [None])]]),
        st("SF32", [["a", {"k": "scalar", "name": "Float32"}], ["v", arr({"k": "scalar", "name": "Float32"}, [4])], ["d", F64], ["w", arr({"k": "scalar", "name": "Float32"}, [None, 2])]]),
        st("SRefHold", [["n", I64], ["r", {"k": "ref", "target": arr(F64, [None])}], ["q", {"k": "ref", "target": arr(I32, [None])}]]),
        # 3-D arrays of variable-size items under the two cyclic axis orders (not their own inverse), not cubic
        arr({"k": "string"}, [2, 3, None], [1, 2, 0]), arr(arr(F64, [None]), [None, 3, 2], [2, 0, 1]),
        st("SCyc", [["k", I64], ["a", arr({"k": "string"}, [2, None, 3], [2, 0, 1])], ["z", I32]]),
    ]
    out = []
    for t in types:
        v = G.gen_value(rng, t)
        if t.get("name") == "SCapStr":      # the string holds 5 bytes of room (size 13), the parts behind it are not empty
            v = {"f": [{"s": [], "size": 13, "cap": 5}, {"shape": [2], "items": [G.scalar_value(rng, "Float64") for _ in range(2)]}, G.scalar_value(rng, "Int64"),
                       {"shape": [3], "items": [G.scalar_value(rng, "Int32") for _ in range(3)]}]}
        if t.get("name") == "SRefHold":     # both references set, targets of 2 and 3 items
            v = {"f": [v["f"][0], {"r": {"shape": [2], "items": [G.scalar_value(rng, "Float64") for _ in range(2)]}},
                       {"r": {"shape": [3], "items": [G.scalar_value(rng, "Int32") for _ in range(3)]}}]}
        out.append({"type": t, "value": v, "prep": {"kind": "numpy", "cap": 256, "al": 8, "poison": 0xA5, "pre": [["alloc", 24]]}, "seed": rng.randrange(1 << 30)})
    return out


def feature(t, path):
    """what kind of access the path performs (for signatures)"""
    feats = []
    cur = t
    for s in path:
        if s[0] == "f":
            dyn = not G.is_static(cur)
            ft = cur["fields"][s[1]][1]
            if dyn and not G.is_static(ft):
                nd_before = sum(1 for _, x in cur["fields"][:s[1]] if not G.is_static(x))
                feats.append("dynamic-field-%s" % ("first" if nd_before == 0 else "by-table"))
            cur = ft
        elif s[0] == "i":
            nd = len(cur["shape"]); dynshape = any(d is None for d in cur["shape"])
            order = "C" if cur["order"] == list(range(nd)) else "nonC"
            feats.append("index-%dD-%s-%s-%s-items" % (nd, "dyn" if dynshape else "static", order, "static" if G.is_static(cur["item"]) else "dynamic"))
            cur = cur["item"]
        elif s[0] == "r":
            feats.append("through-ref"); cur = cur["target"]
    nested = "nested" if len([f for f in feats]) > 1 else "top"
    return (feats[-1] if feats else "self") + ("/after-" + feats[-2] if len(feats) > 1 else "")


def syntax_check(ctx, t_json, targets):
    """host-compiler acceptance of the specialised API source (supporting test for C15)"""
    res = run_impl(ctx, "capi_source", {"types": t_json, "targets": targets})
    out = []
    d = os.path.join(ctx.work, "syntax"); os.makedirs(d, exist_ok=True)
    for k, item in enumerate(res["sources"]):
        for tg, src in item["sources"].items():
            if src is None:
                out.append((k, tg, "source generation failed: " + str(item.get("error")))); continue
            if tg == "opencl":
                import re as _re
                for m in _re.finditer(r"typedef([^;]*)struct\s+\w+\s*\*\s*\w+\s*;", src):
                    if "__global" not in m.group(1):
                        out.append((k, tg, "typedef of an object handle without __global: " + m.group(0)))
            defs = {"opencl": ["-D__global=", "-D__kernel="], "cuda": ["-D__device__=", "-D__global__=", "-D__host__="]}.get(tg, [])
            f = os.path.join(d, "t%d_%s.c" % (k, tg))
            open(f, "w").write("#include <stdint.h>\n" + src + "\n")
            p = subprocess.run(["gcc", "-std=gnu99", "-fsyntax-only", "-Wno-unused-function"] + defs + [f], capture_output=True, text=True)
            if p.returncode != 0:
                out.append((k, tg, p.stderr[-400:]))
    return out, len(res["sources"]) * len(targets)


def run(ctx):
    pid = ctx.pid
    bud = BUDGET[ctx.tier]
    obl = check_obligations(ctx)
    rng = random.Random(ctx.seed + 2)
    cdir = os.path.join(VERIF, "corpus", "capi")
    corpus = [json.load(open(os.path.join(cdir, f))) for f in sorted(os.listdir(cdir))] if os.path.isdir(cdir) else []
    cases = list(corpus) + systematic_cases(rng)
    nfixed = len(cases)
    while len(cases) < bud["n"] + nfixed:
        cases.append(gen_case(rng, bud["depth"]))
    for i, c in enumerate(cases):
        c["exec"] = (pid in ("C02", "C07")) and (i < nfixed or i - nfixed < bud["n_exec"])
        c["targets"] = TARGETS if pid == "C15" else ["raw"]
        c["decl_first"] = {1: True, 2: "cpu"}.get(i % 3, False)
    sh = (len(cases) + bud["shards"] - 1) // bud["shards"]
    results = []
    for r in run_impl_parallel(ctx, "capi", [{"cases": cases[i:i + sh]} for i in range(0, len(cases), sh)], timeout=2400):
        results += r["results"]
    bysig = {}
    def note(sig, what, i, extra=None):
        if sig not in bysig or len(json.dumps(cases[i]["type"])) < len(json.dumps(cases[bysig[sig][0]]["type"])):
            bysig[sig] = (i, what, extra)
    # ---- (T) translation + validation in Coq
    items = []; where = []
    pitems = []; pwhere = []
    nfun = 0
    for i, (c, r) in enumerate(zip(cases, results)):
        if "harness_exc" in r:
            note("%s/harness-problem" % pid, r.get("msg", "") + r.get("tb", "")[-200:], i); continue
        tr = r["translate"]
        for e in tr["errors"]:
            note("%s/generator-raises-%s" % (pid, e["exc"]), "methods_from_path raised %s" % e["msg"], i, e)
        for f in tr["funcs"]:
            nfun += 1
            if "parse_error" in f:
                note("%s/emitted-C-not-in-the-accessor-subset" % pid, "translator (fail closed): %s" % f["parse_error"], i, {"src": f["src"]}); continue
            if f.get("action") is None:
                note("%s/unknown-accessor-kind" % pid, f["name"], i); continue
            if pid in ("C02", "C07"):
                if (pid == "C07") == (f["action"] == "set"):
                    items.append((c["type"], f)); where.append((i, f))
                # element type of scalar accessors
                if f["action"] in ("get", "set"):
                    want = None
                    cur = c["type"]
                    for s in f["path"]:
                        cur = cur["fields"][s[1]][1] if s[0] == "f" else (cur["item"] if s[0] == "i" else cur["target"])
                    want = {"Float64": "double", "Float32": "float"}.get(cur.get("name"), (cur.get("name") or "").lower() + "_t")
                    ok_kind = f["final_kind"] == ("load" if f["action"] == "get" else "store")
                    if (pid == "C07") == (f["action"] == "set") and (not ok_kind or f["ctype"] != want):
                        note("%s/accessor-element-type-or-form/%s" % (pid, f["action"]), "%s uses %s %s, expected %s" % (f["name"], f["final_kind"], f["ctype"], want), i, {"src": f["src"]})
            else:   # C15: all four specialisations are the same program; OpenCL pointers are __global
                vs = f["variants"]
                ref = vs["cpu_serial"]
                for tg in TARGETS[1:]:
                    if (vs[tg]["final_kind"], vs[tg]["ctype"]) != (ref["final_kind"], ref["ctype"]):
                        note("C15/specialisation-for-%s-returns-another-kind-of-value" % tg, "%s: %s %s vs %s %s" % (f["name"], vs[tg]["final_kind"], vs[tg]["ctype"], ref["final_kind"], ref["ctype"]), i, {"src": f["src"]})
                    pitems.append((f, tg)); pwhere.append((i, f, tg))
                for q, tn, nst in vs["opencl"]["casts"]:
                    # pointers written with a star must carry the qualifier; compound handles (typedef'd
                    # `__global struct X_s *`) carry it in their typedef, which the syntax check inspects
                    if nst >= 1 and "__global" not in q:
                        note("C15/opencl-pointer-into-object-memory-not-global", "%s: a cast into obj memory lacks __global" % f["name"], i, {"src": f["src"]})
                items.append((c["type"], f)); where.append((i, f))
    SH = 250
    files = [("cases_%s_%d" % (pid, j // SH), cases_file(items[j:j + SH])) for j in range(0, len(items), SH)]
    res = coq_eval_many(ctx, files)
    broken = None
    coq_bad = []
    for j in range(0, len(items), SH):
        rc, out = res["cases_%s_%d" % (pid, j // SH)]
        pairs = parse_pairs(out) if rc == 0 else None
        if pairs is None:
            broken = out[-1500:]; continue
        for a, code in pairs:
            i, f = where[j + a]
            coq_bad.append((i, f, code))
    if pid == "C15":
        # the verdict of C15 is agreement BETWEEN the specialisations (agreement with the layout is C02's business)
        coq_bad = []
        PSH = 400
        pfiles = [("pairs_C15_%d" % (j // PSH), pairs_file(pitems[j:j + PSH])) for j in range(0, len(pitems), PSH)]
        pres = coq_eval_many(ctx, pfiles)
        for j in range(0, len(pitems), PSH):
            rc, out = pres["pairs_C15_%d" % (j // PSH)]
            pairs = parse_pairs(out) if rc == 0 else None
            if pairs is None:
                broken = out[-1500:]; continue
            for a, code in pairs:
                i, f, tg = pwhere[j + a]
                note("C15/specialisation-for-%s-computes-another-address/%s" % (tg, feature(cases[i]["type"], f["path"])),
                     "%s: the %s text does not compute what the cpu_serial text computes" % (f["name"], tg), i, {"src": f["src"]})
    for i, f, code in coq_bad:
        feat = feature(cases[i]["type"], f["path"])
        if code == 1:
            note("%s/no-specification-for-path/%s/%s" % (pid, f["action"], feat), "the model has no address expression for %s" % f["name"], i, {"src": f["src"]})
        else:
            note("%s/address-arithmetic-differs-from-the-layout/%s/%s" % (pid, f["action"], feat),
                 "%s does not compute the documented address for all indices / header words" % f["name"], i, {"src": f["src"], "fn": f["name"]})
    # ---- (K-CAPI-EXEC)
    ncalls = 0
    exec_hit = set()
    if pid in ("C02", "C07"):
        for i, (c, r) in enumerate(zip(cases, results)):
            ex = r.get("exec")
            if not ex: continue
            if ex.get("stage") == "build":
                note("%s/accessors-do-not-compile" % pid, ex.get("msg"), i); continue
            if ex.get("stage"):
                continue
            for call in ex["calls"]:
                mine = (pid == "C07") == (call["action"] == "set")
                if not mine: continue
                ncalls += 1
                feat = feature(c["type"], call["path"]) + {"after-growth": "/after-buffer-growth", "after-rebind": "/after-reference-rebound-to-a-new-target"}.get(call.get("phase"), "")
                if "exc" in call:
                    note("%s/calling-%s-raises-%s/%s" % (pid, call["action"], call["exc"], feat), "%s%s: %s" % (call["name"], call["idx"], call.get("msg")), i, call)
                elif call["c"] != call["py"]:
                    exec_hit.add((i, call["name"]))
                    if call["action"] == "set":
                        sub = "wrote-elsewhere" if call["c"]["changed_outside"] or call["c"]["written"] != call["py"]["written"] else "other"
                        note("C07/setter-%s/%s" % (sub, feat), "%s%s wrote %s at the element, changed bytes %s outside it" % (call["name"], call["idx"], call["c"]["written"], call["c"]["changed_outside"]), i, call)
                    else:
                        note("C02/%s-differs-from-python/%s" % (call["action"], feat), "%s%s: C gives %s, Python %s" % (call["name"], call["idx"], call["c"], call["py"]), i, call)
                elif call["action"] == "set" and call.get("py_read") != call["py"]["written"]:
                    note("C07/python-does-not-read-the-value-set-from-C/%s" % feat, call["name"], i, call)
                if pid == "C07" and call.get("isz") and call.get("rel") is not None and call["rel"] % call["isz"] != 0:
                    # the model: Alignment.path_off_aligned -- a number sits at a multiple of its own size from the object start
                    note("C07/misaligned-access-relative-to-the-object-start/%s" % feat, "%s%s stores at object start + %d, a %d-byte number" % (call["name"], call["idx"], call["rel"], call["isz"]), i, call)
    # ---- C15 supporting: host compiler acceptance
    nsyn = 0
    if pid == "C15":
        bad, nsyn = syntax_check(ctx, [c["type"] for c in cases[:max(bud["n_syntax"], nfixed + 4)]], TARGETS)
        for k, tg, msg in bad:
            note("C15/host-compiler-rejects-%s-specialisation" % tg, msg, k)
    found = False
    for sig, (i, what, extra) in sorted(bysig.items()):
        found = True
        concrete = True
        # a symbolic disagreement without a concrete call that shows it: say so
        no_input = sig.startswith("%s/address-arithmetic-differs" % pid) and pid in ("C02", "C07") and not any(h[0] == i for h in exec_hit)
        if no_input and cases[i].get("exec") is False:
            # try to exhibit it: compile and run this one type
            c1 = dict(cases[i]); c1["exec"] = True
            try:
                r1 = run_impl(ctx, "capi", {"cases": [c1]}, tag="_x%d" % i, timeout=600)["results"][0].get("exec", {})
                for call in r1.get("calls", []):
                    if ((pid == "C07") == (call["action"] == "set")) and "exc" not in call and call["c"] != call["py"]:
                        no_input = False; extra = dict(extra or {}); extra["concrete_call"] = call; break
            except Exception as e:   # noqa
                pass
        report(ctx, sig, what, dict(kind="concrete", tie="T+K-CAPI", case={k: v for k, v in cases[i].items()}, detail=extra,
                                    how_to_replay="./check %s --replay <this file>" % pid), no_input=no_input)
    if broken:
        report(ctx, "%s/cases-do-not-evaluate" % pid, "cases file does not evaluate", dict(kind="broken-tie", log=broken), no_input=True)
    broken_obligations_violation(ctx, obl, found)
    hist = collections.Counter()
    for t, f in items:
        hist["action:" + f["action"]] += 1; hist["feature:" + feature(t, f["path"])] += 1
    distinct = set(hashlib.sha1(json.dumps([t, f["path"], f["action"]], sort_keys=True).encode()).hexdigest() for t, f in items if f["path"])
    cov = dict(programs=len(items) + len(pitems), disagreements_checked=len(coq_bad), evaluations=nfun, distinct_nontrivial=len(distinct),
               accessor_calls_executed=ncalls, types=len(cases), syntax_checks=nsyn,
               rule="generated types (structs, strings, arrays 1-3D static/dynamic any axis order, Ref, UnionRef, nested to depth %d): every access path the library enumerates and every accessor it emits for it is translated from the emitted C text and validated in Coq against the layout's address expression (all indices, all header words); %s. distinct = distinct (type, path, accessor kind) with a non-empty path" % (bud["depth"], "a subset of types is compiled with cffi and every accessor called with in-range indices on a real object placed among other allocations, results compared with the Python accessors" if pid != "C15" else "the four specialisations are translated separately and must be the same program, OpenCL casts into object memory must be __global, gcc -fsyntax-only must accept each specialisation with the target keywords defined away"),
               samples=[{"type": cases[-1]["type"], "functions": [f["name"] for t, f in items[-5:]]}], distribution=dict(sorted(hist.items())), corpus_cases=len(corpus))
    return finish(ctx, "translation_validation", obl, cov,
                  ["C semantics of the accessor subset (straight-line int64 arithmetic, loads through char*-based addresses) as formalised by CExpr.cexec",
                   "the translator ctext (harness/impl/capi.py) is fail-closed; a mis-parse is cross-checked by really compiled accessors on a subset",
                   "in-range indices; objects are well formed (built by the library from valid values)"])


def replay(ctx, path):
    r = json.load(open(path))
    if r.get("kind") != "concrete":
        print("nothing to execute:", r.get("what")); return 1
    c = dict(r["case"]); c["exec"] = ctx.pid != "C15"
    res = run_impl(ctx, "capi", {"cases": [c]}, timeout=900)["results"][0]
    bad = []
    for f in res["translate"]["funcs"]:
        if "parse_error" in f: bad.append(("parse", f["parse_error"]))
    its = [(c["type"], f) for f in res["translate"]["funcs"] if "parse_error" not in f and f.get("action")]
    rc, out = coq_run(ctx, "replay_%s" % ctx.pid, cases_file(its))
    pairs = parse_pairs(out) if rc == 0 else None
    for a, code in (pairs or []):
        bad.append((its[a][1]["name"], "cfun_ok code %d" % code))
    for call in res.get("exec", {}).get("calls", []):
        if "exc" not in call and call["c"] != call["py"]:
            bad.append((call["name"], call["idx"], call["c"], call["py"]))
    print(json.dumps(bad)[:1500])
    print("REPRODUCED" if bad else "not reproduced")
    return 1 if bad else 0
