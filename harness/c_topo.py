"""C14: emission order of class APIs, judged by the certified checker topo_okb."""
import json, os, hashlib, collections
from core import *

BUDGET = {"quick": dict(shards=4, exh_n=3, exh_root_frac=1.0, n_random=120, n_builds=5),
          "thorough": dict(shards=16, exh_n=3, exh_root_frac=1.0, n_random=500, n_builds=20)}


def edges_of(spec):
    E = {}
    for i, d in enumerate(spec):
        k = d["kind"]; e = []
        if k == "struct": e = list(d["fields"])
        elif k == "array": e = [d["item"]]
        elif k == "ref": e = [d["target"]]
        elif k == "union": e = list(d["members"]) + list(d.get("late_members", []))
        e += list(d.get("depends", []))
        E[i] = e
    return E


def reach(E, roots):
    seen = []; st = list(roots)
    while st:
        c = st.pop()
        if c in seen: continue
        seen.append(c); st += E[c]
    return seen


def find_cycle(E, S):
    color = {}
    def dfs(c, stack):
        color[c] = 1; stack.append(c)
        for d in E[c]:
            if color.get(d) == 1:
                return stack[stack.index(d):]
            if d not in color:
                r = dfs(d, stack)
                if r: return r
        color[c] = 2; stack.pop(); return None
    for c in S:
        if c not in color:
            r = dfs(c, [])
            if r: return r
    return None


def ranks(E, S):
    memo = {}
    def rk(c):
        if c not in memo:
            memo[c] = 0
            memo[c] = 1 + max([rk(d) for d in E[c]], default=-1)
        return memo[c]
    return [(c, rk(c)) for c in S]


def effective(c):
    """the documented override: of two root classes with one name the LAST one listed is used: the overridden class
    leaves the graph (roots and edges are redirected to the overriding class)"""
    spec = c["spec"]; roots = list(c["roots"])
    sub = {}
    for i, d in enumerate(spec):
        j = d.get("same_name_as")
        if j is not None and i in roots and j in roots and roots.index(i) > roots.index(j):
            sub[j] = i
    if not sub:
        return c
    red = lambda l: [sub.get(x, x) for x in l]
    nspec = []
    for i, d in enumerate(spec):
        d = dict(d)
        for k in ("fields", "members", "late_members", "depends"):
            if k in d: d[k] = red(d[k])
        for k in ("item", "target"):
            if k in d: d[k] = sub.get(d[k], d[k])
        nspec.append(d)
    nroots = [r for r in roots if r not in sub]
    return dict(c, spec=nspec, roots=nroots, overridden=sorted(sub))


def case_term(c):
    spec = c["spec"]; E = edges_of(spec)
    g = "; ".join("mkN %d %s %s" % (i, zlist(E[i]), "true" if d["kind"] in ("struct", "array", "ref", "union") else "false") for i, d in enumerate(spec))
    S = reach(E, c["roots"])
    cyc = find_cycle(E, S)
    rk = [] if cyc else ranks(E, S)
    res = c["res"]
    if "order" in res:
        obs = "TOrder %s" % zlist(res["order"])
    elif res.get("error") == "ValueError":
        obs = "TCycleError"
    else:
        obs = "TOtherError"
    return "mkT [%s] %s (%s) %s [%s]" % (g, zlist(c["roots"]), obs, zlist(cyc or []), "; ".join("(%d,%d)" % p for p in rk))


def cases_file(cs):
    body = "From Coq Require Import ZArith List.\nImport ListNotations.\nFrom XO Require Import Chunks AllocSpec Topo.\nOpen Scope Z_scope.\n"
    body += "Definition cs : list tcase := [\n  " + ";\n  ".join(case_term(c) for c in cs) + "\n].\n"
    body += 'Goal True. idtac "@@topo". exact I. Qed.\nEval vm_compute in (failing topo_ok 0%nat cs).\n'
    return body


def classify(c):
    spec = c["spec"]; E = edges_of(spec); S = reach(E, c["roots"]); res = c["res"]
    cyc = find_cycle(E, S)
    if "order" in res:
        o = res["order"]
        if cyc: return "C14/order-produced-for-cyclic-dependencies"
        if len(set(o)) != len(o):
            dup = [x for x in set(o) if o.count(x) > 1][0]
            d = spec[dup]
            leaf = "field-less-or-leaf-class" if not E[dup] else "class-with-dependencies"
            return "C14/class-emitted-twice/%s" % leaf
        api = [x for x in S if spec[x]["kind"] in ("struct", "array", "ref", "union")]
        if set(o) - set(api): return "C14/unneeded-or-unknown-class-emitted"
        if set(api) - set(o): return "C14/needed-class-missing"
        return "C14/class-before-its-dependency"
    if res.get("error") == "ValueError":
        return "C14/cycle-error-without-cycle"
    return "C14/raises-%s" % res.get("error")


def run(ctx):
    bud = BUDGET[ctx.tier]
    obl = check_obligations(ctx)
    payloads = [{"seed": ctx.seed * 100 + i, "exh_n": bud["exh_n"] if i == 0 else 0, "exh_root_frac": bud["exh_root_frac"],
                 "n_random": bud["n_random"], "n_builds": bud["n_builds"]} for i in range(bud["shards"])]
    cs = []
    cdir = os.path.join(VERIF, "corpus", "topo")
    corpus = [json.load(open(os.path.join(cdir, f))) for f in sorted(os.listdir(cdir))] if os.path.isdir(cdir) else []
    if corpus:
        cs += run_impl(ctx, "topo", {"replay": corpus}, tag="corpus")["cases"]
    for r in run_impl_parallel(ctx, "topo", payloads):
        cs += r["cases"]
    cs = [effective(c) for c in cs]
    SH = 600
    files = [("cases_C14_%d" % (i // SH), cases_file(cs[i:i + SH])) for i in range(0, len(cs), SH)]
    res = coq_eval_many(ctx, files)
    fails = []; broken = None
    for i in range(0, len(cs), SH):
        rc, out = res["cases_C14_%d" % (i // SH)]
        pairs = parse_pairs(out) if rc == 0 else None
        if pairs is None:
            broken = out[-1500:]; continue
        fails += [i + a for a, b in pairs]
    seen = set(); found = False
    # smallest failing case per signature
    bysig = {}
    for i in fails:
        sig = classify(cs[i])
        if sig not in bysig or len(cs[i]["spec"]) < len(cs[bysig[sig]]["spec"]):
            bysig[sig] = i
    for sig, i in sorted(bysig.items()):
        found = True
        c = cs[i]
        report(ctx, sig, "sort_classes(%s) on %d classes -> %s" % (c["roots"], len(c["spec"]), json.dumps(c["res"])[:200]),
               dict(kind="concrete", tie="K-TOPO", spec=c["spec"], roots=c["roots"], warm=c.get("warm", False), observed=c["res"], how_to_replay="./check C14 --replay <this file>"))
    # supporting: real builds
    nbuild = 0
    for c in cs:
        b = c["res"].get("build")
        if b is not None:
            nbuild += 1
            if b != "ok":
                found = True
                report(ctx, "C14/emitted-source-does-not-build", "add_kernels(extra_classes=roots) failed: %s" % b[:200],
                       dict(kind="concrete", tie="K-TOPO-build", spec=c["spec"], roots=c["roots"], observed=c["res"]))
    if broken:
        report(ctx, "C14/cases-do-not-evaluate", "cases file does not evaluate", dict(kind="broken-tie", log=broken), no_input=True)
    broken_obligations_violation(ctx, obl, found)
    hist = collections.Counter(); distinct = set()
    for c in cs:
        E = edges_of(c["spec"]); S = reach(E, c["roots"])
        cyc = find_cycle(E, S) is not None
        hist["cyclic" if cyc else "acyclic"] += 1
        hist["n_reachable=%d" % len(S)] += 1
        hist["outcome:" + ("order" if "order" in c["res"] else c["res"].get("error", "?"))] += 1
        for d in c["spec"]:
            hist["kind:" + d["kind"]] += 1
        if any(d["kind"] == "struct" and not d["fields"] for d in c["spec"]): hist["has-field-less-struct"] += 1
        if c.get("overridden"): hist["same-named-overriding-root"] += 1
        if any(d.get("depends") and d["kind"] != "struct" for d in c["spec"]): hist["declared-dependency-on-union-or-named-array"] += 1
        if len(S) >= 2:
            distinct.add(hashlib.sha1(json.dumps([c["spec"], c["roots"]], sort_keys=True).encode()).hexdigest())
    cov = dict(evaluations=len(cs), distinct_nontrivial=len(distinct), builds=nbuild,
               rule="(a) exhaustive: every directed graph (cyclic ones included) on <=%d struct classes (edges as fields or _depends_on), every non-empty ordered choice of roots; (b) random graphs of 2-7 compound classes over structs (also field-less), arrays, refs, unionrefs, scalars, strings, declared dependencies and late union members; real classes are created and xo.context.sort_classes is called; a sample is really built with cffi. The dependency graph handed to Coq comes from the generator's description, not from the library. non-trivial = >=2 reachable classes, distinct (graph, roots)" % bud["exh_n"],
               samples=[{"spec": cs[-1]["spec"], "roots": cs[-1]["roots"], "res": cs[-1]["res"]}],
               distribution=dict(sorted(hist.items())), corpus_cases=len(corpus))
    return finish(ctx, "proof", obl, cov,
                  ["class names are unique within a graph except for the documented override (two roots of one name: the last one listed is used)", "that the emitted source compiles is a runtime fact about cffi/gcc: exercised on a sample of real builds (supporting test), not proved",
                   "which classes have a C API is taken from the class kind (struct/array/ref/unionref yes; scalars/String no)"])


def replay(ctx, path):
    r = json.load(open(path))
    if r.get("kind") != "concrete":
        print("nothing to execute:", r.get("what")); return 1
    c = run_impl(ctx, "topo", {"replay": [{"spec": r["spec"], "roots": r["roots"], "warm": r.get("warm", False)}]})["cases"][0]
    rc, out = coq_run(ctx, "replay_C14", cases_file([c]))
    pairs = parse_pairs(out) if rc == 0 else None
    print(json.dumps(c["res"]))
    bad = bool(pairs) or pairs is None or (c["res"].get("build") not in (None, "ok"))
    print("REPRODUCED" if bad else "not reproduced")
    return 1 if bad else 0
