"""C17 (partial): kernel argument delivery, judged by echo kernels compiled through the real pipeline; the expected
outcome of every call follows the decision table KArg.convert (what is accepted, what C receives, what is refused)."""
import json, os, hashlib, collections, random
from core import *
import gen_types as G

BUDGET = {"quick": dict(n=6, shards=6), "thorough": dict(n=48, shards=16)}
VIEWS = [("whole", "m[0]"), ("slice", "m[2, 3:]"), ("strided", "m[1, ::2]"), ("block-2d", "m[1:, 1:3]"), ("transposed", "m.T"),
         ("transposed-block", "m[2:5, 1:4].T"), ("column", "m[:, 2]"), ("whole-2d", "m")]


def gen_case(rng, i):
    scalars = rng.sample(G.SC, 4) if i else list(G.SC)
    calls = []
    for n in scalars:
        for _ in range(3):
            calls.append({"k": "echo", "type": n, "bits": G.scalar_value(rng, n)})
        if n.startswith("Float"):       # a zero, then the OTHER zero, then the first again: equal but not the same number
            import struct as _st
            fmt = "<d" if n == "Float64" else "<f"
            for z in rng.choice([(0.0, -0.0, 0.0), (-0.0, 0.0, -0.0)]):
                calls.append({"k": "echo", "type": n, "bits": list(_st.pack(fmt, z))})
        for vk, ve in rng.sample(VIEWS, 4):
            calls.append({"k": "first_np", "type": n, "viewkind": vk, "view": ve})
        calls.append({"k": "first_xo", "type": n, "pre": rng.choice([0, 8, 24]), "grow": rng.choice([None, 64, 1000])})
        # CPU buffers pack: after an odd-sized raw allocation the array data sit at an offset that is no multiple of the item size
        calls.append({"k": "first_xo", "type": n, "pre": rng.choice([1, 3, 5, 13, 22]), "grow": rng.choice([None, 64]), "bufkind": rng.choice([None, "bytearray"])})
        other = rng.choice([m for m in G.SC if m != n])
        calls.append({"k": "wrong_dtype", "type": n, "other": other})
        calls.append({"k": "refusals", "type": n, "bits": G.scalar_value(rng, n)})
        if n in ("Float64", "Float32"):       # a complex array is no array of reals
            calls.append({"k": "wrong_dtype", "type": n, "other": "complex128" if n == "Float64" else "complex64"})
    calls.append({"k": "reregister"})
    calls.append({"k": "same_object", "x": rng.choice([0.1, 1e-60, 2.0 / 3.0, 1.0000001]), "n": rng.choice([7, 2 ** 40 + 1, -3])})
    for _ in range(3):
        calls.append({"k": "struct", "n_objs": rng.choice([1, 2, 3]), "gaps": rng.choice([None, [8], [24, 8, 40]]), "cap": rng.choice([64, 128, 1024]),
                      "vlen": rng.choice([1, 2, 3]), "grow": rng.choice([None, [64], [1000, 8]])})
    calls.append({"k": "struct", "n_objs": rng.choice([1, 2, 3]), "gaps": rng.choice([None, [8], [3, 13]]), "cap": rng.choice([64, 1024]),
                  "vlen": rng.choice([1, 3]), "grow": rng.choice([None, [64]]), "bufkind": "bytearray"})
    return {"omp": rng.choice([0, 0, 2]), "scalars": scalars, "calls": calls}


def run(ctx):
    bud = BUDGET[ctx.tier]
    obl = check_obligations(ctx)
    rng = random.Random(ctx.seed + 17)
    cases = [gen_case(rng, i) for i in range(bud["n"])]
    sh = (len(cases) + bud["shards"] - 1) // bud["shards"]
    results = []
    for r in run_impl_parallel(ctx, "karg", [{"cases": cases[i:i + sh]} for i in range(0, len(cases), sh)], timeout=2400):
        results += r["results"]
    bysig = {}
    ncalls = 0
    hist = collections.Counter()
    for i, (c, r) in enumerate(zip(cases, results)):
        if r.get("stage"):
            sig = "C17/%s-problem-%s" % (r["stage"], r.get("exc"))
            bysig.setdefault(sig, (i, r.get("msg", ""), None)); continue
        for call in r["calls"]:
            ncalls += 1
            tag = call["tag"]; hist[tag.split("/")[0]] += 1
            fam = "/".join(tag.split("/")[:2]) if tag.startswith("first-numpy") else tag.split("/")[0] + ("/after-growth" if "after-growth" in tag else "") + ("/bytearray-buffer" if "bytearray-buffer" in tag else "")
            if call.get("refused_expected"):
                if call["ok"]:
                    bysig.setdefault("C17/%s-not-refused" % fam, (i, "the call went through: %s" % str(call.get("got"))[:100], call))
                elif tag.startswith("refuse-wrong-element-type") and call.get("array_untouched") is False:
                    bysig.setdefault("C17/%s-modified-the-array" % fam, (i, "", call))
                continue
            if not call["ok"]:
                bysig.setdefault("C17/%s-raises-%s" % (fam, call.get("exc")), (i, call.get("msg"), call)); continue
            if call["got"] != call["expect"]:
                bysig.setdefault("C17/%s-wrong-value" % fam, (i, "got %s expected %s" % (str(call["got"])[:120], str(call["expect"])[:120]), call))
    found = False
    for sig, (i, what, call) in sorted(bysig.items()):
        found = True
        report(ctx, sig, what, dict(kind="concrete", tie="K-KARG", case=cases[i], call=call, how_to_replay="./check C17 --replay <this file>"))
    broken_obligations_violation(ctx, obl, found)
    cov = dict(evaluations=ncalls, distinct_nontrivial=len(set(json.dumps(c["calls"], sort_keys=True) for c in cases)) * 10, contexts=len(cases),
               rule="echo kernels compiled through ContextCpu (serial and OpenMP): the 10 scalar kinds by value (type extremes, NaN / -0.0 bit patterns, python numbers and numpy scalars), pointer-to-scalar with numpy arrays (whole, slice, strided, 2-D sub-block, transposed, column) and xobject arrays (at non-zero offsets, before and after buffer growth), struct xobjects read and written through the generated C API at any offset, several per buffer, before and after growth with values written from Python after the growth; refusals: positional / missing / extra / misnamed arguments, arrays of another element type. Every outcome is determined: returned bits, the element incremented by the kernel must be the caller's first element, writes visible from Python.",
               samples=[cases[-1]["calls"][:4]], distribution=dict(sorted(hist.items())))
    return finish(ctx, "proof", obl, cov, ["PARTIAL: the cffi / numpy conversion is runtime behaviour outside the model; theorems are about the decision table KArg.convert",
                                         "GPU contexts are not available in this sandbox"])


def replay(ctx, path):
    r = json.load(open(path))
    if r.get("kind") != "concrete":
        print("nothing to execute:", r.get("what")); return 1
    res = run_impl(ctx, "karg", {"cases": [r["case"]]}, timeout=900)["results"][0]
    bad = [c for c in res.get("calls", []) if (c.get("refused_expected") and c["ok"]) or (not c.get("refused_expected") and (not c["ok"] or c["got"] != c["expect"]))]
    print(json.dumps(bad)[:2000]); print("REPRODUCED" if bad or res.get("stage") else "not reproduced")
    return 1 if bad or res.get("stage") else 0
