#!/bin/sh
# usage: harness/try_seed_par.sh <seed dir name> <tier> <property id>...   (as try_seed.sh, the checks 4 at a time)
S=/verif/seeded/$1; shift; TIER=$1; shift
if [ -n "$(git -C /repo status --porcelain --untracked-files=no)" ]; then echo "/repo not clean"; exit 2; fi
if [ -f "$S/patch.diff" ]; then git -C /repo apply "$S/patch.diff" || { echo "patch does not apply"; exit 2; }; fi
trap 'git -C /repo checkout -- . ' EXIT INT TERM
printf '%s\n' "$@" | xargs -P 4 -I{} sh -c 'out=$(cd /verif && timeout 6000 ./check {} --tier '"$TIER"' 2>&1); rc=$?; nv=$(echo "$out" | grep -c "^VIOLATION"); first=$(echo "$out" | grep -m1 "violation:" | cut -c1-150); echo "== {} rc=$rc violations=$nv $first"'
