"""C13: CPU buffer copy primitives, judged by the Coq history checker hist_ok."""
import json, os, hashlib, collections
from core import *

BUDGET = {"quick": dict(maxcap=6, shards=6, n_hist=60, n_ops=14, large=[[65539], [131073], [300001]]),
          "thorough": dict(maxcap=11, shards=16, n_hist=400, n_ops=30,
                           large=[[4099], [65539], [131073], [262149], [300001], [1048577], [2097155], [4194305]])}
ITEMSIZE = {"float64": 8, "float32": 4, "int64": 8, "uint64": 8, "int32": 4, "uint32": 4, "int16": 2, "uint16": 2, "int8": 1, "uint8": 1}


def hist_term(h):
    views = []
    steps = []
    for op, st in zip(h["ops"], h["steps"]):
        t = op[0]
        if t == "upd_native":
            o = "BUpdNative %s %s %s %s" % (zlit(op[1]), zlist(op[2]), zlit(op[3]), zlit(op[4]))
        elif t == "copy_to_native":
            o = "BCopyToNative %s %s %s %s" % (zlist(op[1]), zlit(op[2]), zlit(op[3]), zlit(op[4]))
        elif t == "to_native":
            o = "BToNative %s %s" % (zlit(op[1]), zlit(op[2]))
        elif t == "to_bytearray":
            o = "BToBytearray %s %s" % (zlit(op[1]), zlit(op[2]))
        elif t == "upd_buffer":
            o = "BUpdBuffer %s %s" % (zlit(op[1]), zlist(op[2]))
        elif t == "upd_nplike":
            o = "BUpdNplike %s %s" % (zlit(op[1]), zlist(op[3]))
        elif t == "upd_xbuffer":
            o = "BUpdXbuffer %s %s %s %s" % (zlit(op[1]), zlist(op[2]), zlit(op[3]), zlit(op[4]))
        elif t == "mk_view":
            n = ITEMSIZE[op[2]]
            for d in op[3]:
                n *= d
            views.append((op[1], n))
            o = "BReadView %s %s" % (zlit(op[1]), zlit(n))
        elif t == "read_view":
            o = "BReadView %s %s" % (zlit(views[op[1]][0]), zlit(views[op[1]][1]))
        elif t == "write_view":
            o = "BWriteView %s %s" % (zlit(views[op[1]][0] + op[2]), zlist(op[3]))
        elif t == "read_copy":
            o = "BReadCopy %s" % natlit(op[1])
        elif t == "write_copy":
            o = "BWriteCopy %s %s %s" % (natlit(op[1]), zlit(op[2]), zlist(op[3]))
        elif t == "grow":
            o = "BGrow %s" % zlit(op[1]); views = []
        elif t == "clone":
            o = "BGrow 0"; views = []        # the same bytes in storage of its own: growth by nothing, in the model
        elif t == "new_buffer":
            o = "BNewBuffer %s" % zlit(op[1])
        res = st["res"] if "err" not in st else [-1]
        steps.append("mkBO (%s) %s %s" % (o, zlist(res), zlist(st["mem"])))
    return "mkBH %s [%s]" % (zlist(h["init"]), ";\n    ".join(steps))


def cases_file(hs):
    body = "From Coq Require Import ZArith List.\nImport ListNotations.\nFrom XO Require Import Chunks AllocSpec BufOps.\nOpen Scope Z_scope.\n"
    body += "Definition hs : list bhist := [\n  " + ";\n  ".join(hist_term(h) for h in hs) + "\n].\n"
    body += 'Goal True. idtac "@@hist". exact I. Qed.\nEval vm_compute in (failing hist_ok 0%nat hs).\n'
    return body


def classify(h, k):
    op = h["ops"][k]; st = h["steps"][k]
    t = op[0]
    q = ""
    if t == "upd_buffer":
        q = "/source=" + ("typed-memoryview" if (":" in op[3] and not op[3].endswith("uint8")) else "byte-like")
    if t == "upd_nplike":
        lay = op[5]["layout"]
        q = "/layout=" + {"F2": "F-order", "neg": "non-contiguous", "strided": "non-contiguous"}.get(lay, lay)
        q += "/conv=" + ("yes" if op[5]["src"] != op[2] else "no")
    if "err" in st:
        return "C13/%s/%s/raises-%s%s" % (t, h["kind"], st["err"], q)
    return "C13/%s/%s/wrong-bytes%s" % (t, h["kind"], q)


def run(ctx):
    bud = BUDGET[ctx.tier]
    obl = check_obligations(ctx)
    payloads = [{"seed": ctx.seed * 100 + i, "maxcap": bud["maxcap"], "exhaustive": i == 0, "n_hist": bud["n_hist"], "n_ops": bud["n_ops"]}
                for i in range(bud["shards"])]
    hs = []
    cdir = os.path.join(VERIF, "corpus", "bufops")
    corpus = [json.load(open(os.path.join(cdir, f))) for f in sorted(os.listdir(cdir))] if os.path.isdir(cdir) else []
    if corpus:
        hs += run_impl(ctx, "bufops", {"replay": corpus}, tag="corpus")["hists"]
    for r in run_impl_parallel(ctx, "bufops", payloads):
        hs += r["hists"]
    SH = 150
    files = [("cases_C13_%d" % (i // SH), cases_file(hs[i:i + SH])) for i in range(0, len(hs), SH)]
    res = coq_eval_many(ctx, files)
    fails = []
    broken = None
    for i in range(0, len(hs), SH):
        rc, out = res["cases_C13_%d" % (i // SH)]
        pairs = parse_pairs(out) if rc == 0 else None
        if pairs is None:
            broken = out[-1500:]; continue
        fails += [(i + a, b) for a, b in pairs]
    seen = set(); found = False
    for (hi, k) in sorted(fails):
        h = hs[hi]
        sig = classify(h, k)
        if sig in seen:
            continue
        seen.add(sig); found = True
        # shrink: keep only the ops the failing one depends on (copies/views it refers to) -- simple prefix cut + drop unrelated updates
        ops = h["ops"][:k + 1]
        report(ctx, sig, "%s on %s: %s" % (h["ops"][k][0], h["kind"], h["steps"][k].get("err", "buffer/result bytes differ from the byte-list specification")),
               dict(kind="concrete", tie="K-BUFOPS", hist={"kind": h["kind"], "init": h["init"], "ops": ops},
                    observed=h["steps"][k], failing_step=k, how_to_replay="./check C13 --replay <this file>"))
    # sizes far above what can be evaluated inside Coq: every primitive once per (kind, size, offset), judged by the
    # harness against the same splice / slice semantics
    nlarge = 0
    for r, sizes in zip(run_impl_parallel(ctx, "bufops", [{"large": sz} for sz in bud["large"]]), bud["large"]):
        nlarge += r["probes"]
        for b in r["bad"]:
            sig = "C13/large/%s/%s%s" % (b["primitive"], b["kind"], "/raises" if "raises" in b else "/wrong-bytes")
            if sig in seen: continue
            seen.add(sig); found = True
            report(ctx, sig, "%s on %s with %d items at offset %d: %s" % (b["primitive"], b["kind"], b["n"], b["offset"], b.get("raises", "bytes differ from splice/slice, first at %s" % b.get("first_wrong_byte"))),
                   dict(kind="concrete", tie="K-BUFOPS-LARGE", probe=b, how_to_replay="./check C13 --replay <this file>"))
    if broken:
        report(ctx, "C13/cases-do-not-evaluate", "cases file does not evaluate", dict(kind="broken-tie", log=broken), no_input=True)
    broken_obligations_violation(ctx, obl, found)
    hist = collections.Counter(); distinct = set(); nev = 0
    for h in hs:
        distinct.add(hashlib.sha1(json.dumps([h["kind"], h["init"], [o[:4] for o in h["ops"]]], default=str).encode()).hexdigest())
        hist["kind:" + h["kind"]] += 1; hist["cap:%d" % len(h["init"])] += 1
        for o, s in zip(h["ops"], h["steps"]):
            nev += 1; hist["op:" + o[0]] += 1
            if "err" in s: hist["err:" + s["err"]] += 1
            if o[0] == "upd_nplike": hist["nplike:" + o[5]["layout"]] += 1; hist["nplike:dest=" + o[2]] += 1
            if o[0] == "upd_buffer": hist["source:" + o[3]] += 1
    smp = hs[-1]
    cov = dict(evaluations=nev, distinct_nontrivial=len(distinct), histories=len(hs), exhaustive=False,
               rule="(a) exhaustive: both CPU buffer kinds x every capacity 0..%d x every in-range (offset,length) x a fixed battery of every primitive; (b) random histories mixing all primitives incl. views/copies kept across later writes, growth, 10 dtypes x {C,F,strided,negative-stride,0-d,empty,big-endian} sources with/without conversion, byte-like and typed-memoryview sources. Each step: whole buffer + returned bytes compared inside Coq with the model (hist_ok). distinct = distinct (kind, initial bytes, op list); (c) large transfers: every primitive once per buffer kind x size in %s x offset in {0,8,13} (nplike with 7 dtype pairs), judged by the harness against the same splice/slice semantics (too large to evaluate inside Coq)" % (bud["maxcap"], [s[0] for s in bud["large"]]), large_probes=nlarge,
               samples=[{"kind": smp["kind"], "init": smp["init"], "ops": [str(o)[:160] for o in smp["ops"][:8]]}],
               distribution=dict(sorted(hist.items())), traces_validated_against_impl=len(hs), corpus_cases=len(corpus))
    return finish(ctx, "proof", obl, cov,
                  ["numpy's dtype conversion (astype) and C-order flattening are numpy's: the expected converted bytes are computed with numpy by the harness",
                   "(offset,length) pairs are inside the buffer (the property quantifies over in-range pairs)",
                   "typed views created before a grow() are not used after it (grow replaces the storage)"])


def replay(ctx, path):
    r = json.load(open(path))
    if r.get("kind") != "concrete":
        print("nothing to execute:", r.get("what")); return 1
    if r.get("tie") == "K-BUFOPS-LARGE":
        res = run_impl(ctx, "bufops", {"large": [r["probe"]["n"]]})
        same = [b for b in res["bad"] if b["primitive"] == r["probe"]["primitive"] and b["kind"] == r["probe"]["kind"]]
        for b in same[:5]: print(b)
        print("REPRODUCED" if same else "not reproduced")
        return 1 if same else 0
    h = run_impl(ctx, "bufops", {"replay": [r["hist"]]})["hists"][0]
    rc, out = coq_run(ctx, "replay_C13", cases_file([h]))
    pairs = parse_pairs(out) if rc == 0 else None
    for o, s in zip(h["ops"], h["steps"]):
        print(str(o)[:200], "->", str(s)[:160], s.get("errmsg", ""))
    print("REPRODUCED" if pairs else "not reproduced", pairs)
    return 1 if pairs or pairs is None else 0
