"""Implementation side of the C-API ties (C02, C07, C15):
 (T) translator: the C text emitted by xobjects.capi for every access path of a generated type is
     parsed (fail closed) into straight-line programs for the Coq validator;
 (K-CAPI-EXEC) the real accessors are compiled with cffi and called on real objects, results compared
     with the Python accessors.  JSON in -> JSON out."""
import sys, json, re, traceback, itertools
import numpy as np
import xobjects as xo
from xobjects import capi
from xobjects.typeutils import default_conf
from xobjects.specialize_source import specialize_source
import xotypes as X
from layout import snap, prepare_buffer
from update import unravel

CT = {"Float64": "double", "Float32": "float", "Int64": "int64_t", "UInt64": "uint64_t", "Int32": "int32_t", "UInt32": "uint32_t",
      "Int16": "int16_t", "UInt16": "uint16_t", "Int8": "int8_t", "UInt8": "uint8_t"}
QUALS = ["/*gpuglmem*/", "/*restrict*/", "/*gpufun*/", "/*gpukern*/", "__global", "__restrict__", "restrict", "__device__", "__host__", "static", "inline", "const"]


class ParseError(Exception):
    pass


# ------------------------------------------------------------------ tokenizer / expression parser
TOK = re.compile(r"\s*(/\*[a-z]+\*/|[A-Za-z_][A-Za-z_0-9]*|\d+|[-+*/()\[\]=;,{}])")


def tokenize(s):
    out = []; pos = 0
    s = s.strip()
    while pos < len(s):
        m = TOK.match(s, pos)
        if not m:
            raise ParseError("cannot tokenize %r" % s[pos:pos + 30])
        out.append(m.group(1)); pos = m.end()
    return out


class P:
    """recursive descent over tokens; records the qualifiers seen on every pointer cast into obj memory"""
    def __init__(self, toks, vars_, arr=False, ptrs=None):
        self.t = toks; self.i = 0; self.vars = vars_; self.arr = arr; self.casts = []; self.ptrs = ptrs or {}

    def peek(self, k=0):
        return self.t[self.i + k] if self.i + k < len(self.t) else None

    def eat(self, x=None):
        tok = self.peek()
        if tok is None or (x is not None and tok != x):
            raise ParseError("expected %r got %r at %d in %s" % (x, tok, self.i, " ".join(self.t)))
        self.i += 1
        return tok

    def quals(self):
        q = []
        while self.peek() in QUALS:
            q.append(self.eat())
        return q

    def typ(self):
        """[quals] NAME [*...]  -> (quals, name, nstars)"""
        q = self.quals()
        name = self.eat()
        if not re.match(r"[A-Za-z_]", name):
            raise ParseError("type name expected, got %r" % name)
        q += self.quals()
        n = 0
        while self.peek() == "*":
            self.eat(); n += 1
            q += self.quals()
        return q, name, n

    def objaddr(self):
        """( [quals] char* ) obj + EXPR   -> expr  (the byte address relative to obj)"""
        self.eat("(")
        q, name, n = self.typ()
        if name != "char" or n != 1:
            raise ParseError("byte address must be computed through char*, got %s%s" % (name, "*" * n))
        self.eat(")")
        self.casts.append([q, name, n])
        self.eat("obj"); self.eat("+")
        return self.sum()

    def sum(self):
        e = self.prod()
        while self.peek() == "+":
            self.eat(); e = ["add", e, self.prod()]
        return e

    def prod(self):
        e = self.atom()
        while self.peek() == "*":
            self.eat(); e = ["mul", e, self.atom()]
        return e

    def atom(self):
        tok = self.peek()
        if tok is None:
            raise ParseError("unexpected end")
        if tok.isdigit():
            self.eat(); return ["const", int(tok)]
        if tok == "offset":
            self.eat(); return ["off"]
        if re.fullmatch(r"i\d+", tok):
            self.eat(); return ["idx", int(tok[1:])]
        if tok in self.ptrs:        # an int64_t pointer variable into obj memory:  name[k]
            self.eat(); self.eat("["); k = self.eat(); self.eat("]")
            if not k.isdigit(): raise ParseError("non-constant subscript")
            return ["load", ["add", self.ptrs[tok], ["const", 8 * int(k)]]]
        if tok in self.vars:
            self.eat(); return ["var", self.vars[tok]]
        if tok == "*":      # a load:  *(T*)((char*) obj+E)
            self.eat(); self.eat("(")
            q, name, n = self.typ()
            if n != 1:
                raise ParseError("load through %s%s" % (name, "*" * n))
            self.eat(")")
            self.casts.append([q, name, n])
            self.eat("(")
            a = self.objaddr()
            self.eat(")")
            if name != "int64_t":
                raise ParseError("header words are int64_t, got load of %s" % name)
            return ["load", a]
        if tok == "(":
            self.eat(); e = self.sum(); self.eat(")"); return e
        raise ParseError("unexpected token %r in %s" % (tok, " ".join(self.t)))


def parse_function(src):
    """one emitted accessor -> dict(name, body, final, final_kind, ctype, casts)"""
    lines = [l for l in src.strip().split("\n") if l.strip()]
    head = lines[0]
    m = re.search(r"([A-Za-z_][A-Za-z_0-9]*)\s*\(([^)]*)\)\s*\{\s*$", head)
    if not m:
        raise ParseError("cannot parse declaration %r" % head)
    name = m.group(1)
    if lines[-1].strip() != "}":
        raise ParseError("function does not end with }")
    body = []; vars_ = {}; casts = []; arr = False; ptrs = {}
    final = None; kind = None; ctype = None
    for ln in lines[1:-1]:
        toks = tokenize(ln)
        p = P(toks, vars_, arr, ptrs)
        if toks[:3] == ["int64_t", "offset", "="]:
            # the declaration of the running offset: any initial value (0 in the original text)
            if toks[3:] == ["0", ";"]:
                continue
            p.i = 3; e = p.sum(); p.eat(";"); body.append(["set", e])
            if p.i != len(toks):
                raise ParseError("trailing tokens in %r" % ln)
            continue
        if toks[0] == "offset" and toks[1] == "+" and toks[2] == "=":
            if arr: raise ParseError("offset updated after arr was taken")
            p.i = 3; e = p.sum(); p.eat(";"); body.append(["addto", e])
        elif toks[0] == "offset" and toks[1] == "=":
            if arr: raise ParseError("offset updated after arr was taken")
            p.i = 2; e = p.sum(); p.eat(";"); body.append(["set", e])
        elif toks[0] == "return":
            p.i = 1
            if p.peek() == "*" and p.peek(1) == "(" and p.peek(2) == "(":      # *((T*) obj+offset)   (1-byte scalars)
                p.eat(); p.eat("("); p.eat("(")
                q, tn, n = p.typ(); p.eat(")"); p.casts.append([q, tn, n])
                p.eat("obj"); p.eat("+"); e = p.sum(); p.eat(")"); p.eat(";")
                final, kind, ctype = e, "load", tn
                if n != 1: raise ParseError("bad scalar load")
            elif p.peek() == "*":
                p.eat(); p.eat("(")
                q, tn, n = p.typ(); p.eat(")"); p.casts.append([q, tn, n])
                p.eat("("); e = p.objaddr(); p.eat(")"); p.eat(";")
                if n != 1: raise ParseError("bad scalar load")
                final, kind, ctype = e, "load", tn
            elif p.peek() == "(" and (p.peek(1) in QUALS or re.match(r"[A-Za-z_]", p.peek(1) or "")) and not (p.peek(1) in vars_ or p.peek(1) in ("offset", "arr")):
                p.eat("(")
                q, tn, n = p.typ(); p.eat(")"); p.casts.append([q, tn, n])
                p.eat("("); e = p.objaddr(); p.eat(")"); p.eat(";")
                final, kind, ctype = e, "ptr", tn + "*" * n
            else:
                e = p.sum(); p.eat(";")
                final, kind, ctype = e, "expr", None
        elif toks[0] == "*":            # a store
            p.i = 0
            if p.peek(1) == "(" and p.peek(2) == "(":
                p.eat(); p.eat("("); p.eat("(")
                q, tn, n = p.typ(); p.eat(")"); p.casts.append([q, tn, n])
                p.eat("obj"); p.eat("+"); e = p.sum(); p.eat(")")
            else:
                p.eat(); p.eat("(")
                q, tn, n = p.typ(); p.eat(")"); p.casts.append([q, tn, n])
                p.eat("("); e = p.objaddr(); p.eat(")")
            p.eat("="); p.eat("value"); p.eat(";")
            final, kind, ctype = e, "store", tn
        else:
            # declarations:  [quals] int64_t NAME = EXPR ;   |   [quals] int64_t* arr = (int64_t*)((char*) obj+offset);
            q, tn, n = p.typ()
            nm = p.eat(); p.eat("=")
            if tn != "int64_t":
                raise ParseError("declaration of type %s" % tn)
            if n == 1:
                # a pointer variable into the object's memory; its declared type needs the qualifier as much as the cast
                p.casts.append([q, tn, n])
                p.eat("("); q2, tn2, n2 = p.typ(); p.eat(")"); p.casts.append([q2, tn2, n2])
                p.eat("("); e = p.objaddr(); p.eat(")"); p.eat(";")
                if tn2 != "int64_t" or n2 != 1:
                    raise ParseError("pointer variable of another type")
                if nm == "arr" and e != ["off"]:
                    raise ParseError("arr must point at offset")
                if nm == "arr":
                    ptrs[nm] = e; arr = True          # used by the return that follows (no update of offset may intervene)
                else:
                    # the address is fixed at the declaration: keep its VALUE in a fresh variable
                    vars_["&" + nm] = len(vars_)
                    body.append(["decl", vars_["&" + nm], e])
                    ptrs[nm] = ["var", vars_["&" + nm]]
            elif n == 0:
                e = p.sum(); p.eat(";")
                vars_[nm] = len(vars_)
                body.append(["decl", vars_[nm], e])
            else:
                raise ParseError("cannot parse line %r" % ln)
        if p.i != len(toks):
            raise ParseError("trailing tokens in %r" % ln)
        casts += p.casts
    if final is None:
        raise ParseError("no return / store in %s" % name)
    return {"name": name, "body": body, "final": final, "final_kind": kind, "ctype": ctype, "casts": casts}


# ------------------------------------------------------------------ paths
def steps_of(path):
    """python path (classes, Field, Index, Ref objects) -> csteps understood by the Coq spec"""
    out = []
    for part in path[1:]:
        if capi.is_field(part): out.append(["f", part.index])
        elif capi.is_index(part): out.append(["i"])
        elif capi.is_ref(part): out.append(["r"])
    return out


def action_of(cls, name):
    tn = cls._c_type
    m = re.match(r"^%s_(get|set|getp\d*|len\d*|typeid|member)(_|$)" % re.escape(tn), name)
    if not m:
        return None
    a = m.group(1)
    return re.sub(r"\d+$", "", a)


def translate_type(t, targets=("raw",), decl_first=False):
    cls = X.build(t)
    res = {"funcs": [], "errors": []}
    if decl_first:      # a user may ask for the cffi declarations before generating sources
        try:
            if decl_first == "cpu":
                cls._gen_c_decl({})       # as ContextCpu.build_kernels asks for the cffi declarations (plain conf)
            else:
                cls._gen_c_decl()
        except BaseException as e:  # noqa
            res["errors"].append({"path": [], "exc": X.exc_class(e), "msg": "_gen_c_decl: " + repr(e)[:200]})
    conf = default_conf
    # the specialised forms are taken from the WHOLE API source of the class and its dependencies, specialised at
    # once per target, as a context does it (anything remembered between specialisations shows here)
    full = {}
    if any(tg != "raw" for tg in targets):
        try:
            from xobjects.context import sort_classes, sources_from_classes, _concatenate_sources
            whole, _ = _concatenate_sources(sources_from_classes(sort_classes([cls])))
            for tg in targets:
                if tg != "raw":
                    full[tg] = specialize_source(whole, tg, []).split("\n")
        except BaseException as e:  # noqa
            res["errors"].append({"path": [], "exc": X.exc_class(e), "msg": "whole-source specialisation: " + repr(e)[:200]})

    def from_whole(tg, name, src):
        """text of function `name` inside the specialised whole source (fallback: the function specialised alone)"""
        lines = full.get(tg)
        if lines:
            pat = re.compile(r"\b%s\s*\(" % re.escape(name))
            for i, ln in enumerate(lines):
                if pat.search(ln) and ln.rstrip().endswith("{"):
                    for j in range(i + 1, len(lines)):
                        if lines[j].strip() == "}":
                            return "\n".join(lines[i:j + 1])
                    break
        return specialize_source(src, tg, [])

    for path in cls._gen_data_paths():
        try:
            methods = capi.methods_from_path(cls, path, conf)
        except BaseException as e:  # noqa
            res["errors"].append({"path": steps_of(path), "exc": X.exc_class(e), "msg": repr(e)[:200]}); continue
        for src, kernel in methods:
            if src is None: continue
            entry = {"path": steps_of(path), "src": src}
            try:
                variants = {}
                for tg in targets:
                    text = src if tg == "raw" else from_whole(tg, kernel.c_name, src)
                    variants[tg] = parse_function(text)
                f = variants[targets[0]]
                entry.update(f)
                entry["action"] = action_of(cls, f["name"])
                entry["variants"] = {tg: {"body": v["body"], "final": v["final"], "final_kind": v["final_kind"], "ctype": v["ctype"], "casts": v["casts"], "name": v["name"]}
                                     for tg, v in variants.items()}
                lt = path[-1]
                entry["last"] = getattr(lt, "__name__", str(lt))
            except ParseError as e:
                entry["parse_error"] = str(e)[:300]
            except BaseException as e:  # noqa
                entry["parse_error"] = "specialize/parse failed: " + repr(e)[:300]
            res["funcs"].append(entry)
    return res


# ------------------------------------------------------------------ execution of the real accessors
def py_nav(t, obj, steps, idx):
    """python-side navigation: returns (type, object or None, absolute offset of the element)"""
    ic = 0
    off = int(obj._offset)
    for s in steps:
        if s[0] == "f":
            fname, ft = t["fields"][s[1]]
            off = int(obj._get_offset(fname))
            t = ft
            obj = getattr(obj, fname) if ft["k"] in ("struct", "array", "ref", "union") else None
            if t["k"] in ("ref", "union"):
                tgt = obj
                obj = ("slot", tgt)
        elif s[0] == "i":
            nd = len(t["shape"])
            ii = tuple(idx[ic:ic + nd]); ic += nd
            off = int(obj._get_offset(ii if nd > 1 else ii[0]))
            it = t["item"]
            o2 = obj[ii if nd > 1 else ii[0]] if it["k"] in ("struct", "array", "ref", "union") else None
            t = it; obj = o2
            if t["k"] in ("ref", "union"):
                obj = ("slot", obj)
        elif s[0] == "r":
            tgt = obj[1]
            if tgt is None:
                return t, None, None
            t = t["target"]; obj = tgt; off = int(tgt._offset)
    return t, obj, off


def in_range_indices(rng, t, obj, steps, n=4):
    """sample index tuples valid for the arrays along the path (needs the actual shapes, which may depend on earlier indices)"""
    outs = []
    for _ in range(n):
        idx = []
        tt, oo = t, obj
        ok = True
        for s in steps:
            if s[0] == "f":
                fname, ft = tt["fields"][s[1]]
                oo = getattr(oo, fname); tt = ft
            elif s[0] == "i":
                shape = [int(x) for x in oo._shape]
                if any(d == 0 for d in shape): ok = False; break
                ii = tuple(rng.randrange(d) for d in shape); idx += list(ii)
                oo = oo[ii if len(ii) > 1 else ii[0]]; tt = tt["item"]
            elif s[0] == "r":
                if oo is None: ok = False; break
                tt = tt["target"]
        if ok and idx not in outs:
            outs.append(idx)
    return outs


def exec_type(t, v, prep, rng, do_set=True):
    """compile the real accessors of T and call them on a real object placed among other objects"""
    import random
    rnd = random.Random(rng)
    cls = X.build(t)
    res = {"calls": [], "errors": []}
    b, live = prepare_buffer(prep)
    ctx = b.context
    try:
        obj = cls(X.to_input(t, v, "py"), _buffer=b)
    except BaseException as e:  # noqa
        return {"stage": "construct", "exc": X.exc_class(e), "msg": repr(e)[:200]}
    try:
        kernels = cls._gen_kernels()
        ctx.add_kernels(kernels=kernels)
    except BaseException as e:  # noqa
        return {"stage": "build", "exc": X.exc_class(e), "msg": repr(e)[:400]}
    res["off"] = int(obj._offset); res["size"] = int(obj._size)
    conf = default_conf

    def run_calls(phase):
        for path in cls._gen_data_paths():
            steps = steps_of(path)
            for src, kernel in capi.methods_from_path(cls, path, conf):
                if kernel is None: continue
                name = kernel.c_name
                act = action_of(cls, name)
                if act is None: continue
                nidx = sum(1 for a in kernel.args if re.fullmatch(r"i\d+", a.name or ""))
                idxs = in_range_indices(rnd, t, obj, steps, 3 if phase == "first" else 1) if nidx else [[]]
                for idx in idxs:
                    if len(idx) != nidx: continue
                    call = {"name": name, "action": act, "path": steps, "idx": idx, "phase": phase}
                    try:
                        lt, lobj, addr = py_nav(t, obj, steps, idx)
                        if addr is None:      # null reference on the way: the C accessor must not be called
                            continue
                        kw = {"obj": obj}
                        for k, i in enumerate(idx): kw["i%d" % k] = i
                        if lt["k"] == "scalar" and not any(s_[0] == "r" for s_ in steps):
                            call["rel"] = int(addr) - int(obj._offset); call["isz"] = int(np.dtype(X.DT[lt["name"]]).itemsize)
                        K = ctx.kernels[name]
                        base = np.frombuffer(b.buffer, dtype="int8").ctypes.data
                        if act == "get":
                            r = K(**kw)
                            pyv = xo.__dict__[lt["name"]]._from_buffer(b, addr)
                            call["c"] = list(np.asarray(r, dtype=X.DT[lt["name"]]).tobytes()); call["py"] = list(np.asarray(pyv).tobytes())
                        elif act == "getp":
                            r = K(**kw)
                            call["c"] = int(K.ffi_interface.cast("intptr_t", r)) - base; call["py"] = addr
                        elif act == "len":
                            call["c"] = int(K(**kw)); call["py"] = int(np.prod([int(s) for s in lobj._shape]))
                        elif act == "typeid":
                            call["c"] = int(K(**kw))
                            tgt = lobj[1]
                            call["py"] = -1 if tgt is None else [X.build(m).__name__ for m in lt["members"]].index(tgt.__class__.__name__)
                        elif act == "member":
                            tgt = lobj[1]
                            if tgt is None: continue
                            r = K(**kw)
                            call["c"] = int(K.ffi_interface.cast("intptr_t", r)) - base; call["py"] = int(tgt._offset)
                        elif act == "set" and do_set:
                            import gen_values_local as GV
                            newb = GV.scalar_bytes(rnd, lt["name"])
                            if phase == "first" and lt["name"].startswith("Float"):
                                newb = [1] + [0] * (len(newb) - 1)          # the smallest subnormal: bit-exact delivery or nothing
                            before = snap(b)
                            kw["value"] = X.np_scalar(lt["name"], newb)
                            K(**kw)
                            after = snap(b)
                            n = len(newb)
                            changed = [i for i in range(len(before)) if before[i] != after[i]]
                            call["c"] = {"written": after[addr:addr + n], "changed_outside": [i for i in changed if not (addr <= i < addr + n)][:5]}
                            call["py"] = {"written": list(newb), "changed_outside": []}
                            # and what Python now reads at that element
                            pyv = xo.__dict__[lt["name"]]._from_buffer(b, addr)
                            call["py_read"] = list(np.asarray(pyv).tobytes())
                        else:
                            continue
                    except BaseException as e:  # noqa
                        call["exc"] = X.exc_class(e); call["msg"] = repr(e)[:200]
                    res["calls"].append(call)

    run_calls("first")
    # the same accessors on the same object after the buffer has grown (its storage is replaced):
    # anything the context remembered about the old storage is now stale
    try:
        b.grow(max(int(b.capacity), 64))
        res["grown_to"] = int(b.capacity)
        run_calls("after-growth")
    except BaseException as e:  # noqa
        res["errors"].append("growth: " + repr(e)[:200])
    # references re-bound to a NEW target that took the freed place of the old one (same type, another length):
    # whatever a handle remembers about a referent must not survive
    try:
        rebound = 0
        if t["k"] == "struct":
            for fname, ft in t["fields"]:
                if ft["k"] == "ref" and ft["target"]["k"] == "array" and ft["target"]["shape"] == [None] and ft["target"]["item"]["k"] == "scalar":
                    tgt = getattr(obj, fname)
                    if tgt is None or tgt._buffer is not b: continue
                    n_old = len(tgt)
                    TT = X.build(ft["target"])
                    b.free(int(tgt._offset), int(tgt._size))
                    newt = TT(n_old - 1 if n_old > 1 else 2, _buffer=b)
                    for i in range(len(newt)): newt[i] = i + 3
                    setattr(obj, fname, newt)
                    rebound += 1
        if rebound:
            res["rebound"] = rebound
            run_calls("after-rebind")
    except BaseException as e:  # noqa
        res["errors"].append("rebind: " + repr(e)[:200])
    # the whole object must still read as a consistent object after all the sets
    try:
        res["final_read"] = X.readback(t, obj)
    except BaseException as e:  # noqa
        res["final_read_exc"] = X.exc_class(e)
    return res


def main():
    req = json.load(sys.stdin)
    out = []
    for c in req["cases"]:
        r = {}
        try:
            r["translate"] = translate_type(c["type"], tuple(c.get("targets", ["raw"])), c.get("decl_first", False))
            if c.get("exec"):
                r["exec"] = exec_type(c["type"], c["value"], c["prep"], c.get("seed", 1))
        except BaseException as e:  # noqa
            r["harness_exc"] = X.exc_class(e); r["msg"] = repr(e)[:300]; r["tb"] = traceback.format_exc()[-800:]
        out.append(r)
    print(json.dumps({"results": out}))


if __name__ == "__main__":
    main()
