"""Implementation side of K-SET (C10, C11): construct an object, then apply a history of
assignments (fitting ones and misuse) through handles and nested views; after every step
report outcome, read-back through the constructor handle and through a fresh view, the
bytes of the object's extent and whether any byte outside it changed. JSON in -> JSON out."""
import sys, json, traceback, itertools
import numpy as np
import xobjects as xo
import xotypes as X
from layout import prepare_buffer, snap, CTX   # noqa  (layout.main is guarded below)


def unravel(c, shape):
    idx = []
    for d in reversed(shape):
        idx.append(c % d); c //= d
    return tuple(reversed(idx))


def navigate(t, obj, path):
    """follow accessors; returns (type, object-or-value)"""
    for kind, i in path:
        if kind == "f":
            fname, ft = t["fields"][i]
            obj = getattr(obj, fname); t = ft
        else:
            idx = unravel(i, [int(s) for s in obj._shape])
            obj = obj[idx if len(idx) > 1 else idx[0]]; t = t["item"]
    return t, obj


def assign(t, obj, path, pyval, raw_index=None):
    pt, parent = navigate(t, obj, path[:-1])
    kind, i = path[-1]
    if kind == "f":
        setattr(parent, pt["fields"][i][0], pyval)
    else:
        if raw_index is not None:
            idx = tuple(raw_index)
        else:
            idx = unravel(i, [int(s) for s in parent._shape])
        parent[idx if len(idx) > 1 else idx[0]] = pyval


def parts_of(t, obj, path=()):
    """[path, offset, reported size] of every nested struct / array, as a handle reached from obj reports them"""
    out = []
    if t["k"] == "struct":
        for i, (fname, ft) in enumerate(t["fields"]):
            if ft["k"] in ("struct", "array"):
                sub = getattr(obj, fname)
                out.append([list(path + (("f", i),)), int(sub._offset), int(sub._size)])
                out += parts_of(ft, sub, path + (("f", i),))
    elif t["k"] == "array" and t["item"]["k"] in ("struct", "array"):
        shape = [int(d) for d in obj._shape]
        n = int(np.prod(shape)) if shape else 0
        if n > 100000 or n < 0:
            raise ValueError("array reports %d items" % n)     # a damaged header: do not walk it
        for c in range(n):
            idx = unravel(c, shape)
            sub = obj[idx if len(idx) > 1 else idx[0]]
            out.append([list(path + (("i", c),)), int(sub._offset), int(sub._size)])
            out += parts_of(t["item"], sub, path + (("i", c),))
    return out


def run_case(c):
    t = c["type"]; v = c["value"]
    T = X.build(t)
    b, live = prepare_buffer(c["prep"])
    res = {"steps": []}
    try:
        obj = T(X.to_input(t, v, "py"), _buffer=b)
    except BaseException as e:  # noqa
        return {"stage": "construct", "exc": X.exc_class(e), "msg": repr(e)[:200]}
    off, size = int(obj._offset), int(obj._size)
    res["off"], res["size"] = off, size
    res["bytes0"] = snap(b)[off:off + size]
    if c.get("report_parts"):
        try:
            res["parts0"] = parts_of(t, T._from_buffer(b, off))
        except BaseException as e:  # noqa
            res["parts0_exc"] = repr(e)[:200]
    for op in c["ops"]:
        st = {}
        before = snap(b)
        try:
            if op["mode"] == "grow":
                b.grow(op.get("extra", 64)); st["grew_to"] = int(b.capacity)   # relocates the storage like an allocation that does not fit
            elif op["mode"] == "misuse_ctx":
                T(X.to_input(t, v, "py"), _buffer=b, _context=xo.ContextCpu())
            elif op["mode"] == "misuse_offset":
                T(X.to_input(t, v, "py"), _offset={"zero": 0, "npzero": np.int64(0)}.get(op.get("offset"), 8))
            elif op["mode"] == "misuse_construct_at":
                # a construction that cannot be honoured, at an explicit offset the caller reserved himself
                o = int(b.allocate(size)); b.update_from_buffer(o, bytes([0x5A]) * size)
                st["spare"] = [o, size]
                before = snap(b)
                cexc = None
                try:
                    T(X.to_input(t, op["bad"], "py"), _buffer=b, _offset=o)
                except BaseException as e:  # noqa
                    cexc = e
                st["realloc"] = [int(b.allocate(size)), size]      # the next request of the same size
                if cexc is not None:
                    raise cexc
            else:
                sub_t, _ = None, None
                top = obj if op.get("via", "handle") == "handle" else T._from_buffer(b, off)
                # type of the assigned element
                et = t
                for kind, i in op["path"]:
                    et = et["fields"][i][1] if kind == "f" else et["item"]
                if "raw" in op:             # a raw python value (misuse: wrong shape / non-member / ...)
                    pyval = op["raw"]
                else:
                    form = op.get("form", "py")
                    if form == "xobj_oo":
                        nd = len(et["shape"]); c_order = list(range(nd))
                        t2 = dict(et); t2["order"] = c_order if list(et["order"]) != c_order else c_order[::-1]
                        pyval = X.to_input(t2, op["new"], "xobj")
                    else:
                        pyval = X.to_input(et, op["new"], form)
                        for i, j in op.get("omit", []):       # fields of a nested struct left unnamed
                            del pyval[et["fields"][i][0]][et["fields"][i][1]["fields"][j][0]]
                assign(t, top, op["path"], pyval, op.get("raw_index"))
            st["ok"] = True
        except BaseException as e:  # noqa
            st["ok"] = False; st["exc"] = X.exc_class(e); st["msg"] = repr(e)[:200]
        after = snap(b)
        n = min(len(before), len(after))
        sp = st.get("spare", [0, 0])
        st["outside_changed"] = [i for i in range(n) if before[i] != after[i] and not (off <= i < off + size) and not (sp[0] <= i < sp[0] + sp[1])][:5]
        st["bytes"] = after[off:off + size]
        st["size_now"] = None
        try:
            st["size_now"] = int(obj._get_size()) if hasattr(obj, "_get_size") else int(xo.Int64._from_buffer(b, off))
        except BaseException as e:  # noqa
            st["size_now"] = "exc"
        try:
            st["readback"] = X.readback(t, obj)
        except BaseException as e:  # noqa
            st["readback_exc"] = X.exc_class(e); st["readback_msg"] = repr(e)[:200]
        if c.get("report_parts"):
            try:
                st["parts"] = parts_of(t, T._from_buffer(b, off))
            except BaseException as e:  # noqa
                st["parts_exc"] = repr(e)[:200]
        try:
            st["view_readback"] = X.readback(t, T._from_buffer(b, off))
        except BaseException as e:  # noqa
            st["view_exc"] = X.exc_class(e); st["view_msg"] = repr(e)[:200]
        res["steps"].append(st)
    return res


def main():
    req = json.load(sys.stdin)
    out = []
    for c in req["cases"]:
        try:
            out.append(run_case(c))
        except BaseException as e:  # noqa
            out.append({"stage": "harness", "exc": X.exc_class(e), "msg": repr(e)[:300], "tb": traceback.format_exc()[-800:]})
    print(json.dumps({"results": out}))


if __name__ == "__main__":
    main()
