"""Implementation side of the C03 probe "construction after relocation": a hybrid object that another object of the
same buffer refers to (Ref / UnionRef / array of Ref) is moved elsewhere; the referring object keeps denoting the
original bytes.  Objects constructed in the first buffer afterwards must not overlap any live extent (the still
referenced one included) nor change its bytes.  JSON in -> JSON out."""
import sys, json
import numpy as np
import xobjects as xo


def run(c):
    rng = np.random.default_rng(c["seed"])
    fields = {"x": xo.Float64, "y": xo.Int32}
    if c["dyn"] == "array": fields["w"] = xo.Float64[:]
    elif c["dyn"] == "string": fields["w"] = xo.String
    elif c["dyn"] == "static": fields["w"] = xo.Int16[3]
    Point = type("Pt%d" % c["seed"], (xo.HybridClass,), {"_xofields": fields})
    XP = Point._XoStruct
    if c["holder"] == "ref":
        Holder = type("Hr%d" % c["seed"], (xo.Struct,), {"tag": xo.Int64, "r": xo.Ref(XP)})
    elif c["holder"] == "union":
        Un = type("Un%d" % c["seed"], (xo.UnionRef,), {"_reftypes": [XP]})
        Holder = type("Hu%d" % c["seed"], (xo.Struct,), {"tag": xo.Int64, "r": Un})
    else:
        Holder = type("Ha%d" % c["seed"], (xo.Struct,), {"tag": xo.Int64, "rs": xo.Ref(XP)[2]})
    Arr = xo.Float64[:]
    ctx = xo.ContextCpu()
    buf = ctx.new_buffer(capacity=c["cap"])
    buf.update_from_buffer(0, bytes([0x5A]) * buf.capacity)
    buf2 = ctx.new_buffer(capacity=c["cap"])
    wval = {"array": [5.0, 6.0, 7.0], "string": "hello world", "static": [1, 2, 3], "none": None}[c["dyn"]]
    kw = dict(x=3.0, y=4)
    if wval is not None: kw["w"] = wval
    left = Arr(np.arange(c["nleft"]) + 1.0, _buffer=buf)
    p = Point(_buffer=buf, **kw)
    right = Arr(np.arange(3) + 11.0, _buffer=buf)
    holder = Holder(tag=9, r=p._xobject, _buffer=buf) if c["holder"] != "refarray" else Holder(tag=9, rs=[p._xobject, None], _buffer=buf)
    tgt = holder.r if c["holder"] != "refarray" else holder.rs[0]
    res = {"violations": []}
    if not (int(tgt._offset) == int(p._xobject._offset) and tgt._buffer is buf):
        res["note"] = "holder copied the referent"; return res
    def ext(o): return [int(o._offset), int(o._offset) + int(o._size)]
    def rd():
        t = holder.r if c["holder"] != "refarray" else holder.rs[0]
        out = [float(t.x), int(t.y)]
        if c["dyn"] == "array" or c["dyn"] == "static": out.append([float(v) for v in t.w.to_nparray()])
        elif c["dyn"] == "string": out.append(t.w)
        return out
    ref0 = rd()
    live = {"left": ext(left), "right": ext(right), "holder": ext(holder), "referenced-object": ext(tgt)}
    try:
        if c["dest"] == "other-buffer": p.move(_buffer=buf2)
        elif c["dest"] == "other-context": p.move(_context=xo.ContextCpu())
        else: p.move(_buffer=buf)
    except BaseException as e:  # noqa
        res["note"] = "move refused: " + repr(e)[:100]; return res
    res["moved"] = True
    try:
        if rd() != ref0: res["violations"].append({"what": "referenced-object-changed-by-move", "detail": str(rd())})
    except BaseException as e:  # noqa
        res["violations"].append({"what": "referenced-object-unreadable-after-move", "detail": repr(e)[:120]})
    if c["dest"] == "same-buffer":
        live["moved-object"] = ext(p._xobject)
    for n in c["new_sizes"]:
        before = bytes(buf.to_bytearray(0, buf.capacity))
        q = Arr(np.arange(n) + 100.0, _buffer=buf)
        qe = ext(q)
        after = bytes(buf.to_bytearray(0, buf.capacity))
        for name, e in live.items():
            if e[0] < qe[1] and qe[0] < e[1]:
                res["violations"].append({"what": "new-object-overlaps-live-object/" + name, "detail": "new [%d,%d) live [%d,%d)" % (qe[0], qe[1], e[0], e[1])})
            elif before[e[0]:e[1]] != after[e[0]:e[1]]:
                res["violations"].append({"what": "construction-changed-bytes-of-live-object/" + name, "detail": "new [%d,%d) live [%d,%d)" % (qe[0], qe[1], e[0], e[1])})
        live["new%d" % n] = qe
    try:
        if rd() != ref0: res["violations"].append({"what": "referenced-object-changed-by-later-constructions", "detail": str(rd())})
    except BaseException as e:  # noqa
        res["violations"].append({"what": "referenced-object-unreadable-after-later-constructions", "detail": repr(e)[:120]})
    return res


def main():
    req = json.load(sys.stdin)
    out = []
    for c in req["cases"]:
        try:
            out.append(run(c))
        except BaseException as e:  # noqa
            import traceback
            out.append({"harness": repr(e)[:200], "tb": traceback.format_exc()[-600:], "violations": []})
    print(json.dumps({"results": out}))


if __name__ == "__main__":
    main()
