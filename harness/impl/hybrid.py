"""Implementation side of K-HYBRID / K-DICT / K-PICKLE (C18, C19, C20): histories over generated HybridClass
definitions. JSON in -> JSON out."""
import sys, json, traceback, pickle, importlib, os, types
import numpy as np
import xobjects as xo
import xotypes as X

SC = {"Float64": xo.Float64, "Int64": xo.Int64, "Int32": xo.Int32, "Float32": xo.Float32, "UInt8": xo.UInt8, "Int16": xo.Int16}


def mk_classes(world, module=None):
    """world: {inner: {fields:[[name,kind,...]], rename:{}}, outer: {...}} -> python classes"""
    def ftype(f, classes):
        k = f[1]
        if k == "scalar":
            t = SC[f[2]]
            if len(f) > 3 and f[3] is not None:
                return xo.Field(t, default=f[3]["default"]) if "default" in f[3] else xo.Field(t, default_factory=(lambda v=f[3]["factory"]: v))
            return t
        if k == "string": return xo.String
        if k == "array":
            shape = tuple(slice(None) if d is None else d for d in f[3])
            if len(f) > 4 and f[4] and f[4].get("order"):      # another axis order in memory
                shape = tuple(slice(d, o) for d, o in zip(f[3], f[4]["order"]))
            return SC[f[2]][shape if len(shape) > 1 else shape[0]]
        if k == "nested":
            if len(f) > 3 and f[3]:      # the holder declares its own default for the nested object
                return xo.Field(classes[f[2]]._XoStruct, default=dict(f[3]["default"]))
            return classes[f[2]]
        if k == "ref": return xo.Ref(classes[f[2]])
        raise ValueError(k)
    classes = {}
    for cname in world["order"]:
        spec = world["classes"][cname]
        ns = {"_xofields": {f[0]: ftype(f, classes) for f in spec["fields"]}}
        if spec.get("rename"):
            ns["_rename"] = dict(spec["rename"])
        if module is not None:
            ns["__module__"] = module.__name__
        base = classes[spec["base"]] if spec.get("base") else xo.HybridClass     # a subclass re-declares its fields
        cls = type(cname, (base,), ns)
        if module is not None:
            setattr(module, cname, cls)
            setattr(module, cls._XoStruct.__name__, cls._XoStruct)
            cls._XoStruct.__module__ = module.__name__
        classes[cname] = cls
    return classes


def pyname(spec, fname):
    return spec.get("rename", {}).get(fname, fname)


def val_to_py(f, v, objs):
    k = f[1]
    if k == "scalar": return v
    if k == "string": return v
    if k == "array": return np.array(v, dtype=X.DT[f[2]]).reshape([len_ if d is None else d for d, len_ in zip(f[3], np.array(v).shape)]) if False else np.array(v, dtype=X.DT[f[2]])
    if k in ("nested", "ref"):
        if isinstance(v, dict) and "obj" in v: return objs[v["obj"]]
        return v      # dict of kwargs (py names of the inner class) or None
    raise ValueError(k)


def read_field(f, x):
    """canonical python value of a field value (through attribute access)"""
    k = f[1]
    if k == "scalar": return x.item() if hasattr(x, "item") else x
    if k == "string": return x
    if k == "array": return np.asarray(x).tolist()
    return None


def snapshot(world, classes, name, o):
    """attributes of a dressed object vs the data of its _xobject, field by field (recursively for dressed children)"""
    cname = type(o).__name__
    spec = world["classes"][cname]
    out = {"cls": cname, "off": int(o._offset), "buf": id(o._buffer), "xo_off": int(o._xobject._offset), "fields": {}}
    for f in spec["fields"]:
        pn = pyname(spec, f[0])
        e = {}
        try:
            a = getattr(o, pn)
            xv = getattr(o._xobject, f[0])
            if f[1] in ("scalar", "string", "array"):
                e["attr"] = read_field(f, a)
                e["xo"] = read_field(f, xv.to_nparray() if f[1] == "array" else xv)
            else:
                if a is None or xv is None:
                    e["attr"] = None if a is None else "obj"; e["xo"] = None if xv is None else "obj"
                else:
                    e["attr_off"] = int(a._offset); e["attr_buf"] = id(a._buffer)
                    e["xo_off"] = int(xv._offset); e["xo_buf"] = id(xv._buffer)
                    e["dressed"] = hasattr(a, "_xobject")
                    if hasattr(a, "_xobject"):
                        e["child"] = snapshot(world, classes, None, a)
                    e["pyattrs"] = {k: v for k, v in getattr(a, "__dict__", {}).items() if not k.startswith("_") and isinstance(v, (int, float, str))}
        except BaseException as ex:  # noqa
            e["exc"] = X.exc_class(ex); e["msg"] = repr(ex)[:200]
        out["fields"][f[0]] = e
    return out


def to_pynames(world, cname, vals):
    """a nested dictionary keyed by the PYTHON names of the class (at every level)"""
    spec = world["classes"][cname]
    out = {}
    for f in spec["fields"]:
        if f[0] not in vals: continue
        v = vals[f[0]]
        if f[1] == "nested" and isinstance(v, dict) and "obj" not in v: v = to_pynames(world, f[2], v)
        elif f[1] == "array": v = np.array(v, dtype=X.DT[f[2]])
        out[pyname(spec, f[0])] = v
    return out


def kwargs_for(world, classes, cname, vals, objs, pynames=False):
    spec = world["classes"][cname]
    kw = {}
    for f in spec["fields"]:
        if f[0] in vals:
            v = vals[f[0]]
            if pynames and f[1] == "nested" and isinstance(v, dict) and "obj" not in v:
                kw[pyname(spec, f[0])] = to_pynames(world, f[2], v)
            else:
                kw[pyname(spec, f[0])] = val_to_py(f, v, objs)
    return kw


def run_case(c, module=None):
    world = c["world"]
    classes = mk_classes(world, module)
    ctxs = [xo.ContextCpu(), xo.ContextCpu()]
    bufs = {"B0": ctxs[0].new_buffer(c.get("cap", 4096)), "B1": ctxs[0].new_buffer(c.get("cap", 4096)), "B2": ctxs[1].new_buffer(c.get("cap", 4096))}
    for b in bufs.values():      # free space that was used before: nothing may rely on fresh storage being zero
        b.update_from_buffer(0, bytes([0x5A]) * int(b.capacity))
    bufname = lambda b: [k for k, v in bufs.items() if v is b][0] if any(v is b for v in bufs.values()) else "other"
    objs = {}
    res = {"steps": []}
    for op in c["ops"]:
        st = {"op": op["op"]}
        try:
            o = op["op"]
            if o == "new":
                if op["buf"].startswith("N"):      # a buffer of its own
                    objs[op["name"]] = classes[op["cls"]](**kwargs_for(world, classes, op["cls"], op["vals"], objs))
                else:
                    objs[op["name"]] = classes[op["cls"]](**kwargs_for(world, classes, op["cls"], op["vals"], objs, op.get("pynames", False)), _buffer=bufs[op["buf"]])
            elif o == "set":
                tgt = objs[op["obj"]]
                for pn in op.get("via", []):
                    tgt = getattr(tgt, pn)
                cname = type(tgt).__name__
                spec = world["classes"][cname]
                f = [x for x in spec["fields"] if x[0] == op["field"]][0]
                setattr(tgt, pyname(spec, f[0]), val_to_py(f, op["value"], objs))
            elif o == "set_item":
                tgt = objs[op["obj"]]
                for pn in op.get("via", []):
                    tgt = getattr(tgt, pn)
                spec = world["classes"][type(tgt).__name__]
                arr = getattr(tgt, pyname(spec, op["field"]))
                arr[tuple(op["index"])] = op["value"]
            elif o == "pyattr":
                tgt = objs[op["obj"]]
                for pn in op.get("via", []):
                    tgt = getattr(tgt, pn)
                setattr(tgt, op["attr"], op["value"])
            elif o == "copy":
                kw = {}
                if op.get("buf"): kw["_buffer"] = bufs[op["buf"]]
                if op.get("ctx") is not None: kw["_context"] = ctxs[op["ctx"]]
                objs[op["name"]] = objs[op["src"]].copy(**kw)
            elif o == "move":
                tgt = objs[op["obj"]]
                for pn in op.get("via", []):
                    tgt = getattr(tgt, pn)
                tgt.move(_buffer=(ctxs[0].new_buffer(64) if op["buf"].startswith("N") else bufs[op["buf"]]))
            elif o == "grow":
                b = bufs[op["buf"]]; b.grow(op.get("extra") or max(int(b.capacity), 64))
            elif o == "grow_obj":          # the buffer an object lives in (e.g. a restored one) grows by a little
                objs[op["obj"]]._buffer.grow(op["extra"])
            elif o == "raw_alloc":        # somebody else's allocation in the same buffer
                raw = res.setdefault("_raw", {})
                raw[op["name"]] = (op["buf"], int(bufs[op["buf"]].allocate(op["size"])), op["size"])
            elif o == "raw_free":
                bn, off, size = res["_raw"].pop(op["name"])
                bufs[bn].free(off, size)
            elif o == "fill":              # use the buffer up to its very end
                b = bufs[op["buf"]]
                for ch in list(b.chunks):
                    if ch.end - ch.start > 0:
                        b.allocate(ch.end - ch.start, align=False)
            elif o == "to_dict_roundtrip":
                src = objs[op["src"]]
                d = src.to_dict()
                st["dict_keys"] = sorted(k for k in d if k != "__class__")
                def plain(x):
                    if isinstance(x, dict): return {k: plain(v) for k, v in x.items() if k != "__class__"}
                    if hasattr(x, "tolist"): return x.tolist()
                    if isinstance(x, (list, tuple)): return [plain(v) for v in x]
                    return x
                st["dict"] = plain(d)
                d2 = dict(d); d2.pop("__class__", None)
                objs[op["name"]] = type(src).from_dict(d2, _buffer=bufs[op.get("buf", "B0")])
            elif o == "pickle":
                group = [objs[n] for n in op["names"]]
                if op.get("raw"):          # the plain xobject structs, not their dressing
                    data = pickle.dumps([g._xobject for g in group], **({} if op.get("protocol") is None else {"protocol": op["protocol"]}))
                    back = [type(g)(_xobject=x) for g, x in zip(group, pickle.loads(data))]
                else:
                    # the dressed nested parts of the objects are pickled in the same call, after their containers
                    parts = []
                    if op.get("with_parts"):
                        for gi, g in enumerate(group):
                            spec = world["classes"][type(g).__name__] if type(g).__name__ in world["classes"] else None
                            for cn, sp in world["classes"].items():
                                if classes[cn] is type(g): spec = sp
                            for f in (spec or {"fields": []})["fields"]:
                                if f[1] == "nested":
                                    parts.append((gi, pyname(spec, f[0]), getattr(g, pyname(spec, f[0]))))
                    data = pickle.dumps(group + [p_[2] for p_ in parts], **({} if op.get("protocol") is None else {"protocol": op["protocol"]}))
                    allback = pickle.loads(data)
                    back = allback[:len(group)]
                    st["parts_in_place"] = []
                    for (gi, pn, _), pb in zip(parts, allback[len(group):]):
                        cont = back[gi]; here = getattr(cont, pn)
                        st["parts_in_place"].append([op["names"][gi], pn, bool(pb._buffer is cont._buffer), int(pb._offset) == int(here._offset)])
                for n, b in zip(op["new_names"], back):
                    objs[n] = b
                st["same_buffer"] = [[back[i]._buffer is back[j]._buffer for j in range(len(back))] for i in range(len(back))]
                st["shares_with_original"] = [any(b._buffer is g._buffer for g in group) for b in back]
                # the restored buffer must still be a working allocator
                bb = back[0]._buffer
                try:
                    mine = [b for b in back if b._buffer is bb]
                    ext = [(int(b._offset), int(b._xobject._size)) for b in mine]
                    o1 = int(bb.allocate(24)); o2 = int(bb.allocate(8)); bb.free(o1, 24); o3 = int(bb.allocate(16))
                    regs = [(o2, 8), (o3, 16)]
                    def disj(a, b): return a[0] + a[1] <= b[0] or b[0] + b[1] <= a[0]
                    ok = all(disj(r, e) for r in regs + [(o1, 24)] for e in ext) and disj(regs[0], regs[1]) and disj((o1, 24), (o2, 8)) \
                        and all(r[0] >= 0 and r[0] + r[1] <= bb.capacity for r in regs)
                    # and the restored objects still read the same after the allocator was used
                    st["alloc_ok"] = bool(ok)
                    st["alloc_detail"] = [o1, o2, o3, ext]
                except BaseException as ex:  # noqa
                    st["alloc_ok"] = False; st["alloc_detail"] = repr(ex)[:100]
            st["ok"] = True
        except BaseException as e:  # noqa
            st["ok"] = False; st["exc"] = X.exc_class(e); st["msg"] = repr(e)[:300]; st["tb"] = traceback.format_exc()[-500:]
        snap = {}
        for n, ob in objs.items():
            try:
                snap[n] = snapshot(world, classes, n, ob); snap[n]["bufname"] = bufname(ob._buffer)
            except BaseException as e:  # noqa
                snap[n] = {"exc": X.exc_class(e), "msg": repr(e)[:200]}
        st["objs"] = snap
        res["steps"].append(st)
    res.pop("_raw", None)
    return res


def json_case(c):
    """construct, take the JSON form, rebuild from it"""
    from xobjects.hybrid_class import JEncoder
    t, v = c["type"], c["value"]
    T = X.build(t)
    r = {}
    try:
        a = T(X.to_input(t, v, "py"))
        r["first"] = X.readback(t, a)
        # the JSON form is the nested structure _to_json returns; numpy scalars are written as plain numbers
        js = json.loads(json.dumps(a._to_json(), default=lambda o: o.tolist() if hasattr(o, "tolist") else str(o)))
        b = T(js)
        r["second"] = X.readback(t, b)
        r["independent"] = not (b._buffer is a._buffer and b._offset == a._offset)
    except BaseException as e:  # noqa
        r["exc"] = X.exc_class(e); r["msg"] = repr(e)[:300]
    return r


def main():
    req = json.load(sys.stdin)
    out = []
    if "json_cases" in req:
        print(json.dumps({"results": [json_case(c) for c in req["json_cases"]]}, default=str)); return
    # pickling needs importable classes: a throw-away module on sys.path
    for i, c in enumerate(req["cases"]):
        module = None
        if c.get("importable"):
            module = types.ModuleType("verif_hybrid_mod_%d" % i)
            sys.modules[module.__name__] = module
        try:
            out.append(run_case(c, module))
        except BaseException as e:  # noqa
            out.append({"stage": "harness", "exc": X.exc_class(e), "msg": repr(e)[:300], "tb": traceback.format_exc()[-800:]})
    print(json.dumps({"results": out}, default=str))


if __name__ == "__main__":
    main()
