"""Shared helpers (implementation side): build xobjects classes from a JSON type
description, turn JSON values into Python inputs of a chosen form, read objects back
into JSON values through the public accessors.

type JSON:  {"k":"scalar","name":"Float64"} | {"k":"string"} |
            {"k":"struct","name":N,"fields":[[fname,T],...]} |
            {"k":"array","item":T,"shape":[n|null,...],"order":[..]} |
            {"k":"ref","target":T} | {"k":"union","name":N,"members":[T,...]}
value JSON: scalar -> [bytes]; string -> {"s":[utf8 bytes],"size":n};
            struct -> {"f":[values]}; array -> {"shape":[..],"items":[values, logical C order]};
            ref -> null | {"r":value}; union -> null | {"m":index,"v":value}
"""
import itertools
import numpy as np
import xobjects as xo

DT = {"Float64": "float64", "Float32": "float32", "Int64": "int64", "UInt64": "uint64", "Int32": "int32",
      "UInt32": "uint32", "Int16": "int16", "UInt16": "uint16", "Int8": "int8", "UInt8": "uint8"}
_cache = {}


def tkey(t):
    import json
    return json.dumps(t, sort_keys=True)


def build(t):
    """python type object for a type description (cached: same description -> same class)"""
    k = tkey(t)
    if k in _cache:
        return _cache[k]
    kk = t["k"]
    if kk == "scalar":
        r = getattr(xo, t["name"])
    elif kk == "string":
        r = xo.String
    elif kk == "struct":
        ns = {}
        for fname, ft in t["fields"]:
            ns[fname] = build(ft)
            if t.get("field_decl") and ft["k"] in ("ref", "union", "struct", "array"):
                dflt = (t.get("ref_defaults") or {}).get(fname)
                if dflt is not None and ft["k"] == "ref":
                    # a reference field with a declared (non-null) default: an explicit None still means "nothing"
                    ns[fname] = xo.Field(ns[fname], default=to_input(ft["target"], dflt, "py"))
                else:
                    ns[fname] = xo.Field(ns[fname])        # the explicit form of a field declaration
        r = type(t["name"], (xo.Struct,), ns)
    elif kk == "array":
        item = build(t["item"])
        shape, order = t["shape"], t["order"]
        idx = []
        cord = list(range(len(shape)))
        for d, o in zip(shape, order):
            if list(order) == cord:
                idx.append(slice(None) if d is None else d)
            else:
                idx.append(slice(d, o))
        r = item[tuple(idx) if len(idx) > 1 else idx[0]]
    elif kk == "ref":
        r = xo.Ref[build(t["target"])]
    elif kk == "union":
        r = type(t["name"], (xo.UnionRef,), {"_reftypes": [build(m) for m in t["members"]]})
    _cache[k] = r
    return r


def np_scalar(name, bs):
    return np.frombuffer(bytes(bs), dtype=DT[name])[0]


def to_input(t, v, form, buf=None):
    """python input for value v of type t. form: 'py' plain python data, 'np' numpy where possible,
    'xobj' another xobject (built in buffer `buf` or a fresh one)"""
    kk = t["k"]
    if isinstance(v, dict) and "wrong" in v:      # deliberate misuse: a value of the wrong kind
        return {"dict": {}, "none": None, "obj": object()}[v["wrong"]]
    if form == "xobj_oo" and kk == "array":
        # an xobjects array of the same items and shape but ANOTHER axis order (another class of the same name)
        nd = len(t["shape"]); c_order = list(range(nd))
        t2 = dict(t); t2["order"] = c_order if list(t["order"]) != c_order else c_order[::-1]
        T2 = build(t2)
        inner = to_input(t, v, "py")
        return T2(inner) if buf is None else T2(inner, _buffer=buf)
    if form == "np_be":
        x = to_input(t, v, "np")
        if hasattr(x, "dtype") and x.dtype.itemsize > 1:
            x = x.astype(x.dtype.newbyteorder(">"))      # same numbers, non-native byte order
        return x
    if form == "xobj" and kk in ("string", "struct", "array"):
        T = build(t)
        inner = to_input(t, v, "py")
        if kk == "struct":
            return T(inner) if buf is None else T(inner, _buffer=buf)
        return T(inner) if buf is None else T(inner, _buffer=buf)
    if kk == "scalar":
        x = np_scalar(t["name"], v)
        if form == "np":
            return x
        return x.item()
    if kk == "string":
        if "cap" in v:
            return v["cap"]
        return bytes(v["s"]).decode("utf8")
    if kk == "struct":
        return {fname: to_input(ft, fv, form if form != "xobj" else "py") for (fname, ft), fv in zip(t["fields"], v["f"])}
    if kk == "array":
        shape = v["shape"]
        it = t["item"]
        if form == "np" and it["k"] == "scalar":
            flat = np.frombuffer(bytes(b for x in v["items"] for b in x), dtype=DT[it["name"]]) if v["items"] else np.zeros(0, dtype=DT[it["name"]])
            return flat.reshape(shape).copy()
        items = [to_input(it, x, form if form != "xobj" else "py") for x in v["items"]]
        def nest(items, shape):
            if len(shape) == 1:
                return list(items)
            step = 1
            for d in shape[1:]:
                step *= d
            return [nest(items[i * step:(i + 1) * step], shape[1:]) for i in range(shape[0])]
        return nest(items, shape)
    if kk == "ref":
        return None if v is None else to_input(t["target"], v["r"], form)
    if kk == "union":
        if v is None:
            return None
        mt = t["members"][v["m"]]
        return (build(mt).__name__, to_input(mt, v["v"], "py"))
    raise ValueError(kk)


def readback(t, x):
    """JSON value of what an accessor returned for type t"""
    kk = t["k"]
    if kk == "scalar":
        return list(np.asarray(x, dtype=DT[t["name"]]).tobytes()) if not isinstance(x, np.generic) else (
            list(x.tobytes()) if x.dtype == np.dtype(DT[t["name"]]) else {"wrong_dtype": str(x.dtype), "bytes": list(x.tobytes())})
    if kk == "string":
        if not isinstance(x, str):      # a top-level String handle
            x = x.to_str()
        return {"s": list(x.encode("utf8")), "size": None}
    if kk == "struct":
        return {"f": [readback(ft, getattr(x, fname)) for fname, ft in t["fields"]]}
    if kk == "array":
        shape = [int(s) for s in x._shape]
        if any(d < 0 for d in shape) or int(np.prod(shape, dtype=object)) > 1000000:
            raise ValueError("array reports shape %s" % shape)       # a damaged header: do not walk it
        items = []
        for idx in itertools.product(*[range(s) for s in shape]):
            items.append(readback(t["item"], x[idx if len(idx) > 1 else idx[0]]))
        return {"shape": shape, "items": items}
    if kk == "ref":
        return None if x is None else {"r": readback(t["target"], x)}
    if kk == "union":
        if x is None:
            return None
        names = [build(m).__name__ for m in t["members"]]
        i = names.index(x.__class__.__name__)
        return {"m": i, "v": readback(t["members"][i], x)}
    raise ValueError(kk)


def read_top(t, obj):
    """the top-level handle itself (for scalars there is no handle: value in, value out)"""
    return readback(t, obj)


def exc_class(e):
    n = type(e).__name__
    return n if n in ("ValueError", "IndexError", "TypeError", "MemoryError", "AttributeError", "KeyError", "AssertionError", "NotImplementedError") else "Other:" + n
