"""Implementation side of K-SPEC-TEXT / K-SPEC-EXEC (C16): the real specialize_source on generated
annotated sources (structure of the output recovered line by line), and real / host-simulated
execution of vectorised kernels. JSON in -> JSON out."""
import sys, json, os, re, subprocess, tempfile, traceback
import numpy as np
import xobjects as xo
from xobjects.specialize_source import specialize_source

TARGETS = ["cpu_serial", "cpu_openmp", "opencl", "cuda"]
# loop limits are arbitrary blank-free expressions
LIMS = {1: "n1", 2: "n2", 3: "n1/2", 4: "p->n", 5: "n2-1", 6: "(n1+1)"}
LIM_ID = {v: k for k, v in LIMS.items()}


def render(items, files_dir=None):
    """annotated source text for a list of items"""
    out = []
    for it in items:
        k = it[0]
        if k == "plain":
            if it[1] % 4 == 1: out.append("    // the headers live in data/*.h (an ordinary remark)")
            out.append("    L%d();" % it[1])
        elif k == "only": out.append("    L%d(); //only_for_context %s" % (it[1], " ".join(it[2])))
        elif k == "include": out.append("//include_file f%d.h for_context %s" % (it[1], " ".join(it[2])))
        elif k == "open": out.append("//vectorize_over v%d %s" % (it[1], LIMS[it[2]]))
        elif k == "close": out.append("//end_vectorize")
        elif k == "raw": out.append(it[1])
    return "\n".join(out)


def classify(text):
    """structure of a specialised text: list of xlines (JSON), comment-only and blank lines dropped"""
    out = []
    pending = None
    for ln in text.split("\n"):
        s = ln.strip()
        if not s: continue
        m = re.fullmatch(r"L(\d+)\(\);(\s*//only_for_context.*)?", s)
        if m: out.append(["line", int(m.group(1))]); continue
        m = re.fullmatch(r"//\s*L(\d+)\(\);(\s*//only_for_context.*)?", s)
        if m: out.append(["commented", int(m.group(1))]); continue
        m = re.fullmatch(r"for \(int v(\d+)=0; v\1<(\S+); v\1\+\+\)\{\s*(//.*)?", s)
        if m:
            out.append(["for", int(m.group(1)), LIM_ID[m.group(2)]] if m.group(2) in LIM_ID else ["unknown", s]); continue
        m = re.fullmatch(r"\{?\s*int v(\d+);\s*(//.*)?", s)
        if m: pending = ("decl", int(m.group(1)), s.startswith("{")); continue
        m = re.fullmatch(r"v(\d+)=get_global_id\(0\);\s*(//.*)?", s)
        if m:
            if not pending or pending[1] != int(m.group(1)): out.append(["unknown", s])
            else: out.append(["globalid", int(m.group(1)), pending[2]])
            pending = None; continue
        m = re.fullmatch(r"v(\d+)=blockDim\.x \* blockIdx\.x \+ threadIdx\.x;\s*(//.*)?", s)
        if m:
            if not pending or pending[1] != int(m.group(1)): out.append(["unknown", s]); pending = None
            else: pending = ("cudaid", int(m.group(1)), pending[2])
            continue
        m = re.fullmatch(r"if \(v(\d+)<(\S+)\)\{", s)
        if m:
            if not pending or pending[0] != "cudaid" or pending[1] != int(m.group(1)) or m.group(2) not in LIM_ID: out.append(["unknown", s])
            else: out.append(["cudaguard", int(m.group(1)), LIM_ID[m.group(2)], pending[2]])
            pending = None; continue
        m = re.fullmatch(r"(\}+)\s*//end autovectorized", s)
        if m: out.append(["end", len(m.group(1))]); continue
        if s.startswith("//end autovectorized"): out.append(["end", 0]); continue
        if s.startswith("//"): continue       # //from file, //end file, other comments
        out.append(["unknown", s])
    return out


def text_case(c, workdir):
    """c: {items, files: {id: [items]}}"""
    d = tempfile.mkdtemp(dir=workdir)
    for fid, body in c.get("files", {}).items():
        open(os.path.join(d, "f%s.h" % fid), "w").write(render(body) + "\n")
    src = render(c["items"])
    res = {}
    for tg in TARGETS:
        try:
            out = specialize_source(src, tg, [d])
            res[tg] = {"lines": classify(out)}
            if c.get("plain_only"):
                res[tg]["identical"] = (out == src)
        except BaseException as e:  # noqa
            res[tg] = {"exc": type(e).__name__, "msg": str(e)[:120]}
    return res


# ------------------------------------------------------------------ execution
def kernel_source(k):
    """k: {blocks: [{var, extra_only: [targets] or None}], same_var: bool}"""
    lines = ["// kernels are kept in src/*.h (an ordinary remark)", "/*gpukern*/", "void kk(const int n, /*gpuglmem*/ int* log, /*gpuglmem*/ int* marks){"]
    lines.append("    marks[0] += 1; //only_for_context cpu_serial cpu_openmp")
    lines.append("    marks[1] += 1; //only_for_context opencl")
    lines.append("    marks[2] += 1; //only_for_context cuda")
    lines.append("    marks[3] += 1; //only_for_context cpu_serial")
    lines.append("    marks[4] += 1; //only_for_context cpu_openmp")
    for bi, b in enumerate(k["blocks"]):
        v = b["var"]
        lines.append("    //vectorize_over %s n" % v)
        lines.append("    log[%d*(n+4) + %s] += 1;" % (bi, v))
        if b.get("only"):
            lines.append("    log[%d*(n+4) + %s] += 100; //only_for_context %s" % (bi, v, " ".join(b["only"])))
        lines.append("    //end_vectorize")
    lines.append("}")
    return "\n".join(lines)


HOST = r'''
#include <stdio.h>
#include <stdlib.h>
#include <string.h>
%(shim)s
%(kernel)s
int main(int argc, char** argv){
  int n = atoi(argv[1]); int B = atoi(argv[2]); int nb = %(nb)d;
  int* log = calloc(nb*(n+4)+8, sizeof(int)); int* marks = calloc(8, sizeof(int));
  %(launch)s
  for (int i=0;i<nb*(n+4);i++) printf("%%d ", log[i]);
  printf("| %%d %%d %%d %%d %%d\n", marks[0], marks[1], marks[2], marks[3], marks[4]);
  return 0;
}
'''
SHIM_CL = "#define __kernel\n#define __global\nstatic int __gid; static int get_global_id(int d){return __gid;}\n"
SHIM_CU = "#define __global__\n#define __device__\nstruct d3 {int x;}; static struct d3 blockDim, blockIdx, threadIdx;\n"


def exec_case(k, workdir):
    src = kernel_source(k)
    nb = len(k["blocks"])
    res = {}
    # ---- real CPU contexts
    # (an OpenMP context with ONE thread is still an OpenMP context: it must get the cpu_openmp text)
    for tg, omp in (("cpu_serial", 0), ("cpu_openmp", 2), ("cpu_openmp/1-thread", 1), ("cpu_openmp/set-later", (0, 2)), ("cpu_serial/set-later", (2, 0))):
        r = {}
        try:
            if isinstance(omp, tuple):      # the number of threads is changed after the context was made
                ctx = xo.ContextCpu(omp_num_threads=omp[0]); ctx.omp_num_threads = omp[1]
            else:
                ctx = xo.ContextCpu(omp_num_threads=omp)
            ctx.add_kernels(sources=[src], kernels={"kk": xo.Kernel(args=[xo.Arg(xo.Int32, name="n"), xo.Arg(xo.Int32, pointer=True, name="log"),
                                                                           xo.Arg(xo.Int32, pointer=True, name="marks")], n_threads="n")})
            for n in k["ns"]:
                log = np.zeros(nb * (n + 4) + 8, dtype=np.int32); marks = np.zeros(8, dtype=np.int32)
                ctx.kernels.kk(n=n, log=log, marks=marks)
                r[str(n)] = {"log": [int(x) for x in log[:nb * (n + 4)]], "marks": [int(x) for x in marks[:5]]}
        except BaseException as e:  # noqa
            r["exc"] = type(e).__name__; r["msg"] = str(e)[-400:]
        res[tg] = r
    # ---- opencl / cuda expansions on the host with the contexts' launch geometry
    for tg in ("opencl", "cuda"):
        r = {}
        try:
            sp = specialize_source(src, tg, [])
            if tg == "opencl":
                launch = "for (int g=0; g<n; g++){ __gid=g; kk(n, log, marks); }"       # global size (n,)
                shim = SHIM_CL
            else:
                launch = ("blockDim.x=B; int grid=%s; for (int b=0;b<grid;b++) for (int t=0;t<B;t++){ blockIdx.x=b; threadIdx.x=t; kk(n, log, marks); }"
                          % "GRID")
                shim = SHIM_CU
            d = tempfile.mkdtemp(dir=workdir)
            code = HOST % {"shim": shim, "kernel": sp, "nb": nb, "launch": launch.replace("GRID", "atoi(argv[3])")}
            open(os.path.join(d, "k.c"), "w").write(code)
            p = subprocess.run(["gcc", "-std=gnu99", "-O0", "-o", os.path.join(d, "k"), os.path.join(d, "k.c")], capture_output=True, text=True)
            if p.returncode != 0:
                r["exc"] = "CompileError"; r["msg"] = p.stderr[-400:]
            else:
                for n in k["ns"]:
                    B = k["B"]
                    grid = int(np.ceil(n / B))          # as KernelCupy.__call__
                    q = subprocess.run([os.path.join(d, "k"), str(n), str(B), str(grid)], capture_output=True, text=True, timeout=60)
                    a, b = q.stdout.split("|")
                    r[str(n)] = {"log": [int(x) for x in a.split()], "marks": [int(x) for x in b.split()]}
        except BaseException as e:  # noqa
            r["exc"] = type(e).__name__; r["msg"] = str(e)[-300:]
        res[tg] = r
    return res


def main():
    req = json.load(sys.stdin)
    wd = os.getcwd()
    out = {"text": [], "exec": []}
    for c in req.get("text", []):
        try: out["text"].append(text_case(c, wd))
        except BaseException as e:  # noqa
            out["text"].append({"harness_exc": repr(e)[:200], "tb": traceback.format_exc()[-500:]})
    for k in req.get("exec", []):
        try: out["exec"].append(exec_case(k, wd))
        except BaseException as e:  # noqa
            out["exec"].append({"harness_exc": repr(e)[:200], "tb": traceback.format_exc()[-500:]})
    print(json.dumps(out))


main()
