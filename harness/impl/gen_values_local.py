"""tiny scalar value pool for the implementation-side scripts"""
import struct
FMT = {"Float64": "<d", "Float32": "<f", "Int64": "<q", "UInt64": "<Q", "Int32": "<i", "UInt32": "<I", "Int16": "<h", "UInt16": "<H", "Int8": "<b", "UInt8": "<B"}
BITS = {"Int64": 64, "UInt64": 64, "Int32": 32, "UInt32": 32, "Int16": 16, "UInt16": 16, "Int8": 8, "UInt8": 8}


def scalar_bytes(rng, name):
    if name.startswith("Float"):
        x = rng.choice([0.0, -0.0, 1.5, -2.25, 3.0e10, float("inf"), 1e-20, 42.0, "subnormal", "subnormal"])
        if x == "subnormal":          # the smallest magnitudes of the type (bit patterns 1 and 0x8000..3)
            n = len(struct.pack(FMT[name], 0.0))
            return rng.choice([[1] + [0] * (n - 1), [3] + [0] * (n - 2) + [0x80], [0xFF, 0xFF] + [0] * (n - 2)])
        return list(struct.pack(FMT[name], x))
    bits = BITS[name]
    lo, hi = (0, 2 ** bits - 1) if name.startswith("U") else (-2 ** (bits - 1), 2 ** (bits - 1) - 1)
    return list(struct.pack(FMT[name], rng.choice([lo, hi, 0, 1, 77, hi - 1])))
