"""Implementation side of the C09 pass over copies of NESTED parts: build a holder object, copy-construct one of its
compound parts (same buffer / other buffer / other context), then re-lay-out the original (an ancestor of the copied
part is assigned another object of its class of the same total size whose items are distributed differently), write a
leaf of the copy and a leaf of the original.  After every step the original and the copy (through the kept handle AND
through a fresh view) are read back.  JSON in -> JSON out."""
import sys, json, traceback
import numpy as np
import xobjects as xo
import xotypes as X
from layout import prepare_buffer, snap, CTX   # noqa
from update import navigate, assign


def rb(t, obj):
    try:
        return {"v": X.readback(t, obj)}
    except BaseException as e:  # noqa
        return {"exc": X.exc_class(e), "msg": repr(e)[:200]}


def run_case(c):
    t = c["type"]; v = c["value"]
    T = X.build(t)
    b, live = prepare_buffer(c["prep"])
    res = {}
    try:
        h = T(X.to_input(t, v, "py"), _buffer=b)
    except BaseException as e:  # noqa
        return {"stage": "construct", "exc": X.exc_class(e), "msg": repr(e)[:200]}
    pt, part = navigate(t, h, [tuple(s) for s in c["p"]])
    PT = X.build(pt)
    where = c["where"]
    try:
        if where == "same":
            cp = PT(part, _buffer=b)
        elif where == "other":
            cp = PT(part, _buffer=CTX.new_buffer(c["prep"]["cap"] or 64))
        else:
            cp = PT(part, _context=xo.ContextCpu())
    except BaseException as e:  # noqa
        return {"stage": "copy", "exc": X.exc_class(e), "msg": repr(e)[:200]}
    res["src_extent"] = [int(part._offset), int(part._size)]
    res["cp_extent"] = [int(cp._offset), int(cp._size)]
    res["same_buffer"] = cp._buffer is h._buffer
    res["cp_capacity"] = int(cp._buffer.capacity)
    cb, coff = cp._buffer, int(cp._offset)
    def observe(tag):
        res["h_" + tag] = rb(t, h)
        res["cp_" + tag] = rb(pt, cp)
        res["cpview_" + tag] = rb(pt, PT._from_buffer(cb, coff))
    res["srcpart_0"] = rb(pt, part)
    if c.get("first_relayout_copy") and c.get("newp") is not None:
        # 0'. the COPY is assigned an object of its class of the same size laid out differently; the handle the copy was
        #     made FROM must not notice
        try:
            cp._update(X.to_input(pt, c["newp"], "xobj"))
            res["copy_relayout"] = "ok"
        except BaseException as e:  # noqa
            res["copy_relayout"] = X.exc_class(e)
        res["srcpart_after_copy_relayout"] = rb(pt, part)
        res["src_extent_after"] = [int(part._offset), int(part._size)]
        res["h_after_copy_relayout"] = rb(t, h)
        return res
    observe("0")
    # 1. re-lay-out the original: an ancestor of the copied part gets another object of its class
    q = [tuple(s) for s in c["q"]]
    qt = t
    for kind, i in q:
        qt = qt["fields"][i][1] if kind == "f" else qt["item"]
    try:
        newobj = X.to_input(qt, c["newq"], "xobj")
        res["relayout_same_size"] = int(newobj._size) == int(navigate(t, h, q)[1]._size)
        assign(t, h, q, newobj)
        res["relayout"] = "ok"
    except BaseException as e:  # noqa
        res["relayout"] = X.exc_class(e); res["relayout_msg"] = repr(e)[:200]
    observe("1")
    # 2. write a leaf of the copy
    if c.get("cp_write"):
        try:
            assign(pt, cp, [tuple(s) for s in c["cp_write"]["path"]], X.to_input(c["cp_write"]["type"], c["cp_write"]["new"], "py"))
            res["cp_write"] = "ok"
        except BaseException as e:  # noqa
            res["cp_write"] = X.exc_class(e); res["cp_write_msg"] = repr(e)[:200]
        observe("2")
    # 3. write a leaf of the original
    if c.get("h_write"):
        try:
            assign(t, h, [tuple(s) for s in c["h_write"]["path"]], X.to_input(c["h_write"]["type"], c["h_write"]["new"], "py"))
            res["h_write"] = "ok"
        except BaseException as e:  # noqa
            res["h_write"] = X.exc_class(e); res["h_write_msg"] = repr(e)[:200]
        observe("3")
    return res


def poisoned(ctx, cap, kind="numpy"):
    from xobjects.context_cpu import BufferByteArray
    b = BufferByteArray(capacity=cap, context=ctx) if kind == "bytearray" else ctx.new_buffer(cap)
    b.update_from_buffer(0, bytes([0x5A]) * int(b.capacity))
    return b


def run_string(c):
    """a stand-alone String copied into storage that was used before (not zero)"""
    ctx = xo.ContextCpu()
    b = poisoned(ctx, 256, c["kind"])
    b.allocate(c["pre"])
    src = xo.String(c["init"], _buffer=b)
    if c.get("then") is not None:
        src_holder = None
    dest = {"same": b, "other": poisoned(ctx, 256, c["kind"]), "ctx": poisoned(xo.ContextCpu(), 256, c["kind"]),
            "otherkind": poisoned(ctx, 256, "bytearray" if c["kind"] == "numpy" else "numpy")}[c["where"]]
    res = {"src": src.to_str() if hasattr(src, "to_str") else str(src)}
    try:
        cp = xo.String(src, _buffer=dest)
        res["cp"] = cp.to_str(); res["cpview"] = xo.String._from_buffer(dest, cp._offset)
        res["cp_extent"] = [int(cp._offset), int(cp._size)]; res["src_extent"] = [int(src._offset), int(src._size)]; res["same_buffer"] = dest is b
    except BaseException as e:  # noqa
        res["exc"] = X.exc_class(e); res["msg"] = repr(e)[:200]
    return res


def run_large(c):
    """a reference-free object of more than a megabyte copied to another buffer / context / buffer kind"""
    ctx = xo.ContextCpu()
    n = c["n"]
    class Big(xo.Struct):
        k = xo.Int64
        a = xo.Float64[:]
        s = xo.String
        z = xo.Int32
    vals = (np.arange(n) % 1000003).astype(np.float64)
    b = poisoned(ctx, 64, c["kind"])
    if c["what"] == "array":
        src = xo.Float64[:](vals, _buffer=b); T = xo.Float64[:]
        rd = lambda o: o.to_nparray()
    else:
        src = Big(k=7, a=vals, s="tail of the object", z=-3, _buffer=b); T = Big
        rd = lambda o: np.concatenate([[float(o.k)], o.a.to_nparray(), [float(len(o.s)), float(o.z)]])
    exp = rd(src).copy()
    res = {}
    try:
        if c["where"] == "ctx": cp = T(src, _context=xo.ContextCpu())
        elif c["where"] == "other": cp = T(src, _buffer=ctx.new_buffer(64))
        elif c["where"] == "otherkind": cp = T(src, _buffer=poisoned(xo.ContextCpu(), 64, "bytearray" if c["kind"] == "numpy" else "numpy"))
        else: cp = T(src, _buffer=b)
        got = rd(cp)
        bad = np.nonzero(got != exp)[0] if got.shape == exp.shape else np.array([-1])
        res["differs"] = int(len(bad)); res["first"] = int(bad[0]) if len(bad) else None
        got2 = rd(T._from_buffer(cp._buffer, cp._offset))
        res["view_differs"] = int(np.sum(got2 != exp)) if got2.shape == exp.shape else -1
        res["src_changed"] = int(np.sum(rd(src) != exp))
    except BaseException as e:  # noqa
        res["exc"] = X.exc_class(e); res["msg"] = repr(e)[:200]
    return res


def main():
    req = json.load(sys.stdin)
    out = []
    if "strings" in req or "large" in req:
        for c in req.get("strings", []):
            try: out.append(run_string(c))
            except BaseException as e: out.append({"harness": repr(e)[:200], "tb": traceback.format_exc()[-500:]})  # noqa
        for c in req.get("large", []):
            try: out.append(run_large(c))
            except BaseException as e: out.append({"harness": repr(e)[:200], "tb": traceback.format_exc()[-500:]})  # noqa
        print(json.dumps({"results": out})); return
    for c in req["cases"]:
        try:
            out.append(run_case(c))
        except BaseException as e:  # noqa
            out.append({"stage": "harness", "exc": X.exc_class(e), "msg": repr(e)[:300], "tb": traceback.format_exc()[-800:]})
    print(json.dumps({"results": out}))


if __name__ == "__main__":
    main()
