"""Implementation side of K-ALLOC-SAFE / K-ALLOC-FF (C04, C12).
Runs allocate/free/grow histories on the real XBuffer classes of /repo and records
every transition (pre/post capacity and raw chunk list, result, get_free()),
plus direct oracles evaluated on the implementation alone:
  c04: overlap / bounds / alignment of live regions, pattern bytes of live regions
  c12: independent first-fit reference computed from the implementation's own pre-state
JSON in (stdin) -> JSON out (last stdout line)."""
import sys, json, random, signal, itertools
import numpy as np
import xobjects as xo
from xobjects.context_cpu import BufferNumpy, BufferByteArray

KINDS = {"numpy": BufferNumpy, "bytearray": BufferByteArray}
CTX = xo.ContextCpu()


class Timeout(Exception):
    pass


def _alarm(sig, frm):
    raise Timeout()


signal.signal(signal.SIGALRM, _alarm)


def mkbuf(cfg):
    return KINDS[cfg["kind"]](capacity=cfg["cap"], context=CTX, default_alignment=cfg["al"], grow_step=cfg["gs"])


def snap(b):
    return {"cap": int(b.capacity), "chunks": [[int(c.start), int(c.end)] for c in b.chunks]}


def pattern(off, size, tag):
    return bytes(((off + i) * 31 + tag * 17 + 5) & 0xFF for i in range(size))


# ---- independent python reference used only as the direct oracle / for replays
def norm(chunks):
    cs = sorted([c for c in chunks if c[0] < c[1]])
    out = []
    for s, e in cs:
        if out and s <= out[-1][1]:
            out[-1][1] = max(out[-1][1], e)
        else:
            out.append([s, e])
    return out


def first_fit(runs, size, al):
    for s, e in runs:
        o = -(-s // al) * al
        if o + size <= e:
            return o
    return None


def c12_oracle(pre, op, obs, post, gf):
    F = norm(pre["chunks"])
    if sum(e - s for s, e in norm(post["chunks"])) != gf:
        return "get_free()=%d but free bytes=%d" % (gf, sum(e - s for s, e in norm(post["chunks"])))
    if obs[0] == "err":
        return "%s raised %s" % (op[0], obs[1])
    if post["cap"] < pre["cap"]:
        return "capacity shrank"
    if op[0] == "alloc":
        size, al = op[1], op[2]
        if size == 0:
            return None
        o = first_fit(F, size, al)
        if o is not None:
            if post["cap"] != pre["cap"]:
                return "grew although offset %d fits" % o
            if obs[1] != o:
                return "offset %d but first fit is %d" % (obs[1], o)
        else:
            if post["cap"] <= pre["cap"]:
                return "no fit but no growth"
            G = norm(F + [[pre["cap"], post["cap"]]])
            o = first_fit(G, size, al)
            if obs[1] != o:
                return "offset %d but first fit after growth is %s" % (obs[1], o)
    return None


def c04_oracle(b, live, pats):
    cap = b.capacity
    if len(b.buffer) != cap:       # the capacity the allocator hands regions out of IS the storage
        return "capacity %d but the storage holds %d bytes" % (cap, len(b.buffer))
    rs = sorted(live)
    for (o, s, a) in rs:
        if o < 0 or o + s > cap:
            return "region [%d,%d) outside capacity %d" % (o, o + s, cap)
        if o % a != 0:
            return "region at %d not aligned to %d" % (o, a)
    nz = [r for r in rs if r[1] > 0]
    for i in range(len(nz) - 1):
        if nz[i][0] + nz[i][1] > nz[i + 1][0]:
            return "regions [%d,%d) and [%d,%d) overlap" % (nz[i][0], nz[i][0] + nz[i][1], nz[i + 1][0], nz[i + 1][0] + nz[i + 1][1])
    for (o, s, a) in rs:
        if s > 0:
            got = bytes(b.to_bytearray(o, s))
            if (o, s, a) in pats and got != pats[(o, s, a)]:
                return "bytes of live region [%d,%d) changed" % (o, o + s)
    return None


def do_op(b, op, live, pats, tagc):
    """execute one op; returns obs"""
    try:
        signal.alarm(20)
        if op[0] == "alloc":
            size, al = op[1], op[2]
            off = b.allocate(size, align=(al != 1)) if al == b.default_alignment or al == 1 else None
            off = int(off)
            r = (off, size, al)
            live.append(r)
            if size > 0 and 0 <= off and off + size <= b.capacity:
                p = pattern(off, size, tagc[0]); tagc[0] += 1
                pats[r] = p
                b.update_from_buffer(off, p)
            else:
                pats[r] = b""
            return ["off", off]
        elif op[0] == "free":
            r = (op[1], op[2], op[3])
            b.free(op[1], op[2])
            live.remove(r)
            pats.pop(r, None)
            return ["unit"]
        elif op[0] == "grow":
            b.grow(op[1])
            return ["unit"]
    except Timeout:
        return ["err", "Timeout"]
    except BaseException as e:  # noqa
        return ["err", type(e).__name__]
    finally:
        signal.alarm(0)


def run_walk(cfg, ops_or_gen, rng=None, nsteps=0, probe=True):
    """ops_or_gen: explicit list of ops (replay) or None -> generate with rng"""
    b = mkbuf(cfg)
    live, pats, tagc = [], {}, [1]
    walk = {"cfg": cfg, "init": snap(b), "steps": []}
    explicit = ops_or_gen is not None
    seq = list(ops_or_gen) if explicit else None
    k = 0
    probing = False
    probe_budget = 0
    while True:
        if explicit:
            if k >= len(seq):
                break
            op = seq[k]
            if op[0] == "free_i":   # free the i-th live region (exhaustive enumeration)
                if op[1] >= len(live):
                    break
                r = live[op[1]]
                op = ["free", r[0], r[1], r[2]]
            elif op[0] == "alloc_d":  # aligned allocation with the buffer's default alignment
                op = ["alloc", op[1], cfg["al"]]
        else:
            if k >= nsteps and not probing:
                if not probe:
                    break
                probing = True
                probe_budget = 6
            if probing:
                runs = [c for c in norm([[c.start, c.end] for c in b.chunks])]
                if not runs or probe_budget <= 0:
                    break
                probe_budget -= 1
                op = ["alloc", runs[0][1] - runs[0][0], 1]
            else:
                op = gen_op(rng, b, cfg, live)
        pre = snap(b)
        obs = do_op(b, op, live, pats, tagc)
        post = snap(b)
        try:
            gf = int(b.get_free())
        except BaseException:
            gf = -1
        st = {"op": op, "obs": obs, "post": post, "gf": gf}
        o4 = c04_oracle(b, live, pats)
        if o4:
            st["c04"] = o4
        o12 = c12_oracle(pre, op, obs, post, gf)
        if o12:
            st["c12"] = o12
        walk["steps"].append(st)
        k += 1
        if len(walk["steps"]) > 400:
            break
    if not explicit and rng is not None and rng.random() < 0.35:
        # a request no machine can honour: it is refused and the allocator is as it was; the next request is served
        # from real storage
        pre = snap(b)
        obs = do_op(b, ["alloc", 1 << 62, 1], live, pats, tagc)
        post = snap(b)
        obs2 = do_op(b, ["alloc", 16, 1], live, pats, tagc)
        walk["refusal_probe"] = {"obs": obs, "state_changed": pre != post, "then": obs2, "c04": c04_oracle(b, live, pats)}
    return walk


def gen_op(rng, b, cfg, live):
    r = rng.random()
    al = cfg["al"]
    if live and r < 0.38:
        o, s, a = rng.choice(live)
        return ["free", o, s, a]
    if r < 0.45:
        return ["grow", rng.choice([0, 1, 3, 8, 17, 64])]
    # allocation, model-guided sizes
    runs = norm([[c.start, c.end] for c in b.chunks])
    cands = [0, 1, 2, 3, 5, 8, 13, 16, 24, 33]
    for s, e in runs[:4]:
        n = e - s
        cands += [n, n - 1, n + 1, max(0, n - al), n + al, max(0, n - (-s % al)), max(0, n - (-s % al) + 1), max(0, n - (-s % al) - 1)]
    if len(runs) >= 2:
        cands.append(runs[1][1] - runs[0][0])
    cands.append(b.capacity + rng.choice([0, 1, 7]))
    cands.append(max(0, b.capacity - rng.choice([0, 1, al])))
    size = max(0, int(rng.choice(cands)))
    size = min(size, 5000)
    return ["alloc", size, al if rng.random() < 0.6 else 1]


def gen_cfg(rng):
    return {"kind": rng.choice(["numpy", "bytearray"]),
            "cap": rng.choice([0, 1, 7, 8, 16, 24, 64, 100, 256, 1000]),
            "al": rng.choice([1, 1, 2, 4, 8, 8, 16, 32, 64]),
            "gs": rng.choice([None, None, None, 1, 5, 7, 64, 1000])}


def exhaustive(depth, cfgs):
    alpha = [["alloc_d", s] for s in (0, 1, 3, 8)] + [["alloc", s, 1] for s in (1, 3, 8)] + \
            [["free_i", i] for i in (0, 1, 2)] + [["grow", 1], ["grow", 8]]
    out = []
    for cfg in cfgs:
        for d in range(1, depth + 1):
            for seq in itertools.product(alpha, repeat=d):
                # skip sequences whose free_i cannot apply (index >= number of allocs so far)
                nl = 0; ok = True
                for op in seq:
                    if op[0] in ("alloc", "alloc_d"):
                        nl += 1
                    elif op[0] == "free_i":
                        if op[1] >= nl:
                            ok = False; break
                        nl -= 1
                if ok:
                    out.append(run_walk(cfg, [list(o) for o in seq], probe=False))
    return out


def main():
    req = json.load(sys.stdin)
    sys.setrecursionlimit(3000)
    walks = []
    if "replay" in req:
        for w in req["replay"]:
            walks.append(run_walk(w["cfg"], w["ops"], probe=False))
    else:
        rng = random.Random(req["seed"])
        for i in range(req.get("n_walks", 0)):
            cfg = gen_cfg(rng)
            walks.append(run_walk(cfg, None, rng, req["n_steps"]))
        if req.get("exh_depth", 0) > 0:
            walks += exhaustive(req["exh_depth"], req["exh_cfgs"])
    print(json.dumps({"walks": walks}))


main()
