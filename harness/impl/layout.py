"""Implementation side of K-LAYOUT-W/R (C01, C03, C05, C06): construct objects of generated
types from generated values in prepared buffers and report everything observable.
JSON in -> JSON out."""
import sys, json, random, traceback
import numpy as np
import xobjects as xo
from xobjects.context_cpu import BufferNumpy, BufferByteArray
import xotypes as X

CTX = xo.ContextCpu()


def snap(b):
    buf = b.buffer
    if isinstance(buf, np.ndarray):
        return list(buf.view(np.uint8).tobytes())
    return list(bytes(buf))


def prepare_buffer(prep):
    """prep: {kind, cap, al, poison, pre:[ops]} -> buffer with prior allocations/frees, filled with poison"""
    K = BufferNumpy if prep["kind"] == "numpy" else BufferByteArray
    b = K(capacity=prep["cap"], context=CTX, default_alignment=prep["al"])
    live = []
    for op in prep["pre"]:
        if op[0] == "alloc":
            o = b.allocate(op[1]); live.append((o, op[1]))
        elif op[0] == "free" and live:
            o, s = live.pop(op[1] % len(live)); b.free(o, s)
    if prep.get("tail_left") is not None and b.chunks and b.chunks[-1].end == b.capacity:
        ch = b.chunks[-1]
        fill = (ch.end - ch.start) - int(prep["tail_left"])
        if fill > 8:
            o = b.allocate(fill); live.append((o, fill))
    # poison everything (free space and live neighbours alike), then mark neighbours
    cap = b.capacity
    if cap:
        pat = bytes([prep["poison"]]) * cap
        b.update_from_buffer(0, pat)
    for (o, s) in live:
        if s:
            b.update_from_buffer(o, bytes(((o + i) * 7 + 3) & 0xFF for i in range(s)))
    return b, live


def run_case(c):
    t = c["type"]; v = c["value"]
    res = {}
    try:
        T = X.build(t)
    except BaseException as e:  # noqa
        return {"stage": "class", "exc": X.exc_class(e), "msg": repr(e)[:200]}
    b, live = prepare_buffer(c["prep"])
    allocs = []
    orig_alloc = b.allocate
    def walloc(size, align=True):
        o = orig_alloc(size, align=align); allocs.append([int(o), int(size)]); return o
    b.allocate = walloc
    form = c["form"]
    try:
        if form == "cap":            # strings: capacity
            inp = c["cap"]
        elif form == "dims":         # arrays: lengths of the dynamic dimensions
            inp = None
        elif form in ("xobj", "xobj_oo"):
            srcbuf = CTX.new_buffer(4096) if c.get("xobj_other_buffer", True) else b
            inp = X.to_input(t, v, form, buf=srcbuf)
        else:
            inp = X.to_input(t, v, form)
    except BaseException as e:  # noqa
        return {"stage": "input", "exc": X.exc_class(e), "msg": repr(e)[:300], "tb": traceback.format_exc()[-600:]}
    # "any prior allocations and frees": an earlier object of the same class lived (and was looked at
    # through a view) where this one may land, and was released
    if c.get("ghost") is not None:
        try:
            g = T(X.to_input(t, c["ghost"], "py"), _buffer=b)
            X.readback(t, T._from_buffer(b, g._offset))
            res["ghost"] = [int(g._offset), int(g._size)]
            b.free(g._offset, g._size)
            del g
        except BaseException as e:  # noqa
            res["ghost_exc"] = X.exc_class(e) + ": " + repr(e)[:200]
    allocs.clear()
    before = snap(b)
    cap0 = b.capacity
    pl = c["placement"]
    kw = {"_buffer": b}
    if pl[0] == "aligned":
        kw["_offset"] = "aligned"
    elif pl[0] == "packed":
        kw["_offset"] = "packed"
    elif pl[0] == "explicit":
        # the caller reserves the space first (size known from the expected image)
        o = orig_alloc(pl[1]); kw["_offset"] = o; res["reserved"] = [int(o), pl[1]]
        before = snap(b)
    try:
        if t["k"] == "scalar":
            raise NotImplementedError("scalars have no handle")
        if form == "dims":
            obj = T(*c["dims"], **kw)
        elif form == "kwargs" and t["k"] == "struct":
            obj = T(**inp, **kw)
        else:
            obj = T(inp, **kw)
    except BaseException as e:  # noqa
        res.update({"stage": "construct", "exc": X.exc_class(e), "msg": repr(e)[:300], "after": snap(b), "before": before, "tb": traceback.format_exc()[-800:]})
        return res
    res["off"] = int(obj._offset)
    res["size"] = int(obj._size) if obj._size is not None else None
    try:
        if t["k"] == "string":
            res["get_size"] = int(xo.Int64._from_buffer(b, obj._offset))
        else:
            res["get_size"] = int(obj._get_size()) if hasattr(obj, "_get_size") else None
    except BaseException as e:  # noqa
        res["get_size"] = "exc:" + X.exc_class(e)
    res["allocs"] = allocs[:]
    res["before"] = before
    res["after"] = snap(b)
    res["cap"] = [int(cap0), int(b.capacity)]
    # C01: read back through the constructor handle
    try:
        res["readback"] = X.readback(t, obj)
        if t["k"] == "array" and t["item"]["k"] == "scalar":
            # the same items read with numpy integer indices of every width (a valid index is a valid index)
            shp = [int(d) for d in obj._shape]
            n = int(np.prod(shp)) if shp else 0
            bad = []
            for c in sorted(set([0, n // 2, n - 1])) if n else []:
                idx = []; r = c
                for d in reversed(shp): idx.append(r % d); r //= d
                idx = tuple(reversed(idx))
                ref = obj[idx if len(idx) > 1 else idx[0]]
                for dt in (np.int8, np.uint8, np.int16, np.uint16, np.int32, np.int64):
                    if all(i <= np.iinfo(dt).max for i in idx):
                        with np.errstate(all="ignore"):
                            try:
                                import warnings
                                with warnings.catch_warnings():
                                    warnings.simplefilter("ignore")
                                    got = obj[tuple(dt(i) for i in idx) if len(idx) > 1 else dt(idx[0])]
                                if np.asarray(got).tobytes() != np.asarray(ref).tobytes():
                                    bad.append([list(idx), dt.__name__, "other-item"])
                            except BaseException as e:  # noqa
                                bad.append([list(idx), dt.__name__, X.exc_class(e)])
            res["npidx_bad"] = bad[:4]
    except BaseException as e:  # noqa
        res["readback_exc"] = X.exc_class(e); res["readback_msg"] = repr(e)[:300]; res["readback_tb"] = traceback.format_exc()[-600:]
    # C06: a view made from buffer+offset only
    try:
        view = T._from_buffer(b, obj._offset)
        res["view_readback"] = X.readback(t, view)
        if t["k"] != "string":    # String._from_buffer yields a python str, not a view object
            res["view_caches"] = caches(t, view); res["handle_caches"] = caches(t, obj)
    except BaseException as e:  # noqa
        res["view_exc"] = X.exc_class(e); res["view_msg"] = repr(e)[:300]; res["view_tb"] = traceback.format_exc()[-600:]
    # to_nparray for scalar arrays
    if t["k"] == "array" and t["item"]["k"] == "scalar":
        try:
            a = obj.to_nparray()
            res["nparray"] = {"shape": [int(s) for s in a.shape], "items": [list(np.asarray(x).tobytes()) for x in a.flatten(order="C")]}
        except BaseException as e:  # noqa
            res["nparray_exc"] = X.exc_class(e); res["nparray_msg"] = repr(e)[:200]
    return res


def caches(t, o):
    """observable caches of a handle/view"""
    c = {}
    for k in ("_size", "_shape", "_strides"):
        if hasattr(o, k):
            x = getattr(o, k)
            c[k] = [int(i) for i in x] if isinstance(x, (list, tuple)) else (int(x) if x is not None else None)
    if t["k"] == "array":
        import itertools
        shape = [int(s) for s in o._shape]
        try:
            c["item_offsets"] = [int(o._get_offset(idx if len(idx) > 1 else idx[0])) for idx in itertools.product(*[range(s) for s in shape])]
        except BaseException as e:  # noqa
            c["item_offsets"] = "exc:" + X.exc_class(e)
    if t["k"] == "struct":
        try:
            c["field_offsets"] = [int(o._get_offset(fname)) for fname, _ in t["fields"]]
        except BaseException as e:  # noqa
            c["field_offsets"] = "exc:" + X.exc_class(e)
    return c


def main():
    req = json.load(sys.stdin)
    out = []
    for c in req["cases"]:
        try:
            out.append(run_case(c))
        except BaseException as e:  # noqa
            out.append({"stage": "harness", "exc": X.exc_class(e), "msg": repr(e)[:300], "tb": traceback.format_exc()[-800:]})
    print(json.dumps({"results": out}))


if __name__ == "__main__":
    main()
