"""whole API source of generated types, specialised for the requested targets (for the host-compiler syntax check)"""
import sys, json
import xobjects as xo
from xobjects.context import sort_classes, sources_from_classes, _concatenate_sources
from xobjects.specialize_source import specialize_source
import xotypes as X


def main():
    req = json.load(sys.stdin)
    out = []
    for t in req["types"]:
        item = {"sources": {}}
        try:
            cls = X.build(t)
            classes = sort_classes([cls])
            src, _ = _concatenate_sources(sources_from_classes(classes))
            for tg in req["targets"]:
                item["sources"][tg] = specialize_source(src, tg, [])
        except BaseException as e:  # noqa
            item["error"] = repr(e)[:300]
            for tg in req["targets"]:
                item["sources"].setdefault(tg, None)
        out.append(item)
    print(json.dumps({"sources": out}))


main()
