"""Implementation side of K-BUFOPS (C13): histories of CPU buffer copy primitives on
BufferNumpy and BufferByteArray; after every call the whole buffer and the returned
bytes are recorded. JSON in -> JSON out."""
import sys, json, random
import numpy as np
import xobjects as xo
from xobjects.context_cpu import BufferNumpy, BufferByteArray

KINDS = {"numpy": BufferNumpy, "bytearray": BufferByteArray}
CTX = xo.ContextCpu()
CTX2 = xo.ContextCpu()
DTYPES = ["float64", "float32", "int64", "uint64", "int32", "uint32", "int16", "uint16", "int8", "uint8"]


def snap(b):
    buf = b.buffer
    if isinstance(buf, np.ndarray):
        return list(buf.view(np.uint8).tobytes())
    return list(bytes(buf))


def native(kind, bs):
    if kind == "numpy":
        return np.frombuffer(bytes(bs), dtype=np.int8).copy()
    return bytearray(bs)


def native_bytes(x):
    if isinstance(x, np.ndarray):
        return list(x.view(np.uint8).tobytes()) if x.size else []
    return list(bytes(x))


def mkbuf(kind, content, ctx=CTX):
    b = KINDS[kind](capacity=len(content), context=ctx)
    if len(content):
        if kind == "numpy":
            b.buffer[:] = np.frombuffer(bytes(content), dtype=np.int8)
        else:
            b.buffer[:] = bytes(content)
    return b


def rbytes(rng, n):
    return [rng.randrange(256) for _ in range(n)]


def mk_source(rng, form, bs):
    """a bytes-like python object holding exactly the bytes bs"""
    bs = bytes(bs)
    if form == "bytes":
        return bs
    if form == "bytearray":
        return bytearray(bs)
    if form == "memoryview":
        return memoryview(bs)
    if form == "ndarray.data:uint8":
        return np.frombuffer(bs, dtype=np.uint8).copy().data
    if form.startswith("ndarray.data:"):
        dt = np.dtype(form.split(":")[1])
        return np.frombuffer(bs, dtype=dt).copy().data   # typed memoryview: len() counts items
    raise ValueError(form)


def mk_nparray(rng, src_dt, layout, nitems):
    """source array for update_from_nplike"""
    dt = np.dtype(src_dt)
    def vals(n):
        if dt.kind == "f":
            return np.array([rng.choice([0.0, -0.0, 1.5, -2.25, 1e10, 3.0, 100.0, 7.0]) for _ in range(n)], dtype=dt)
        info = np.iinfo(dt)
        return np.array([rng.choice([0, 1, 2, 3, 100, info.max, info.min, 77]) for _ in range(n)], dtype=dt)
    if layout == "C1":
        return vals(nitems)
    if layout == "0d":
        return vals(1).reshape(())
    if layout == "empty":
        return vals(0)
    if layout in ("C2", "F2"):
        a = vals(2 * nitems).reshape(2, nitems)
        return np.asfortranarray(a) if layout == "F2" else a
    if layout == "strided":
        return vals(2 * nitems)[::2]
    if layout == "neg":
        return vals(nitems)[::-1]
    if layout == "bigendian":
        return vals(nitems).astype(dt.newbyteorder(">"))
    raise ValueError(layout)


def run_hist(h):
    """h: {kind, init:[bytes], ops:[...]}; returns steps with res/mem (or err)"""
    kind = h["kind"]
    b = mkbuf(kind, h["init"])
    copies, views = [], []
    steps = []
    for op in h["ops"]:
        t = op[0]
        res = []
        err = None
        try:
            if t == "upd_native":
                _, off, src, soff, n = op
                b.update_from_native(off, native(kind, src), soff, n)
            elif t == "copy_to_native":
                _, dest, doff, soff, n = op
                d = native(kind, dest)
                b.copy_to_native(d, doff, soff, n)
                res = native_bytes(d)
            elif t == "to_native":
                r = b.to_native(op[1], op[2]); copies.append(r); res = native_bytes(r)
            elif t == "to_bytearray":
                r = b.to_bytearray(op[1], op[2]); copies.append(r); res = native_bytes(r)
            elif t == "upd_buffer":
                _, off, src, form = op
                b.update_from_buffer(off, mk_source(None, form, src))
            elif t == "upd_nplike":
                _, off, dest_dt, conv, arr_spec = op[:5]
                b.update_from_nplike(off, np.dtype(dest_dt), ARRS[arr_spec])
            elif t == "upd_xbuffer":
                _, off, srcbuf, soff, n, skind, sctx = op
                sb = mkbuf(skind, srcbuf, CTX if sctx == "same" else CTX2)
                b.update_from_xbuffer(off, sb, soff, n)
            elif t == "mk_view":
                _, off, dt, shape = op
                v = b.to_nplike(off, np.dtype(dt), tuple(shape))
                views.append((v, off, int(np.prod(shape)) * np.dtype(dt).itemsize))
                res = list(v.tobytes())
            elif t == "read_view":
                v, off, n = views[op[1]]
                res = list(v.tobytes())
            elif t == "write_view":
                v, off, n = views[op[1]]
                flat = v.reshape(-1).view(np.uint8)
                flat[op[2]:op[2] + len(op[3])] = np.frombuffer(bytes(op[3]), dtype=np.uint8)
            elif t == "read_copy":
                res = native_bytes(copies[op[1]])
            elif t == "write_copy":
                c = copies[op[1]]
                if isinstance(c, np.ndarray):
                    c[op[2]:op[2] + len(op[3])] = np.frombuffer(bytes(op[3]), dtype=np.int8)
                else:
                    c[op[2]:op[2] + len(op[3])] = bytes(op[3])
            elif t == "grow":
                b.grow(op[1]); views = []
            elif t == "clone":
                import pickle, copy
                b = pickle.loads(pickle.dumps(b)) if op[1] == "pickle" else copy.deepcopy(b)
                views = []
            elif t == "new_buffer":
                res = native_bytes(b._new_buffer(op[1]))
        except BaseException as e:  # noqa
            err = type(e).__name__
            errmsg = repr(e)[:200]
        st = {"res": [int(x) for x in res], "mem": snap(b)}
        if err:
            st["err"] = err; st["errmsg"] = errmsg
        steps.append(st)
    return steps


ARRS = {}


def gen_ops(rng, kind, cap, nops, single=None):
    """generate ops against a python-side shadow of sizes only (content comes from the run)"""
    ops = []
    ncopies, views, copysizes = 0, [], []
    cur = cap
    for _ in range(nops):
        t = single or rng.choice(["upd_native", "copy_to_native", "to_native", "to_bytearray", "upd_buffer", "upd_buffer",
                                  "upd_nplike", "upd_nplike", "upd_xbuffer", "mk_view", "read_view", "write_view",
                                  "read_copy", "write_copy", "grow", "new_buffer", "clone"])
        off = rng.randint(0, cur); n = rng.randint(0, cur - off)
        if t == "upd_native":
            sl = n + rng.randint(0, 4); soff = rng.randint(0, sl - n)
            ops.append([t, off, rbytes(rng, sl), soff, n])
        elif t == "copy_to_native":
            dl = n + rng.randint(0, 4); doff = rng.randint(0, dl - n)
            ops.append([t, rbytes(rng, dl), doff, off, n])
        elif t in ("to_native", "to_bytearray"):
            ops.append([t, off, n]); ncopies += 1; copysizes.append(n)
        elif t == "upd_buffer":
            form = rng.choice(["bytes", "bytearray", "memoryview", "ndarray.data:uint8", "ndarray.data:float64",
                               "ndarray.data:int32", "ndarray.data:int16"])
            if ":" in form and not form.endswith("uint8"):
                isz = np.dtype(form.split(":")[1]).itemsize
                n = (n // isz) * isz
            ops.append([t, off, rbytes(rng, n), form])
        elif t == "upd_nplike":
            dest = rng.choice(DTYPES); srcdt = rng.choice([dest, dest, rng.choice(DTYPES)])
            isz = np.dtype(dest).itemsize
            layout = rng.choice(["C1", "C1", "0d", "empty", "C2", "F2", "strided", "neg", "bigendian"])
            per = {"0d": 1, "empty": 0, "C2": 2, "F2": 2}.get(layout)
            avail = (cur - off) // isz
            if per is None:
                k = rng.randint(0, min(avail, 3)); tot = k
            elif per == 2:
                k = rng.randint(0, min(avail // 2, 2)); tot = 2 * k
            else:
                k = per; tot = per
            if tot * isz > cur - off:
                continue
            arr = mk_nparray(rng, srcdt, layout, k)
            with np.errstate(all="ignore"):
                conv = list(arr.astype(np.dtype(dest)).tobytes(order="C"))
            key = "a%d" % len(ARRS); ARRS[key] = arr
            ops.append([t, off, dest, conv, key, {"src": srcdt, "layout": layout}])
        elif t == "upd_xbuffer":
            sl = n + rng.randint(0, 4); soff = rng.randint(0, sl - n)
            ops.append([t, off, rbytes(rng, sl), soff, n, rng.choice(["numpy", "bytearray"]), rng.choice(["same", "other"])])
        elif t == "mk_view":
            dt = rng.choice(DTYPES); isz = np.dtype(dt).itemsize
            cnt = rng.randint(0, min(4, (cur - off) // isz))
            shape = [cnt] if rng.random() < 0.7 or cnt % 2 else [2, cnt // 2]
            ops.append([t, off, dt, shape]); views.append((off, cnt * isz))
        elif t == "read_view":
            if not views: continue
            ops.append([t, rng.randrange(len(views))])
        elif t == "write_view":
            if not views: continue
            k = rng.randrange(len(views)); voff, vn = views[k]
            if vn == 0: continue
            o = rng.randint(0, vn - 1); l = rng.randint(1, vn - o)
            ops.append([t, k, o, rbytes(rng, l)])
        elif t == "read_copy":
            if not ncopies: continue
            ops.append([t, rng.randrange(ncopies)])
        elif t == "write_copy":
            if not ncopies: continue
            k = rng.randrange(ncopies)
            if copysizes[k] == 0: continue
            o = rng.randint(0, copysizes[k] - 1); l = rng.randint(1, copysizes[k] - o)
            ops.append([t, k, o, rbytes(rng, l)])
        elif t == "grow":
            g = rng.choice([0, 1, 3, 8]); ops.append([t, g]); cur += g; views = []
        elif t == "new_buffer":
            ops.append([t, rng.randint(0, 6)])
        elif t == "clone":
            # the buffer object is replaced by a pickled / deep-copied clone of itself (same bytes, storage of its
            # own); the views asked of the original are asked again of the clone, with the same parameters
            again = [o for o in ops if o[0] == "mk_view"][-2:] if views else []
            ops.append([t, rng.choice(["pickle", "deepcopy"])]); views = []
            for o in again:
                ops.append(list(o)); cnt = 1
                for d in o[3]: cnt *= d
                views.append((o[1], cnt * np.dtype(o[2]).itemsize))
    return ops


def large_probes(sizes):
    """every copy primitive once per (buffer kind, size, offset) at sizes far above what the histories use (a
    special case above some size threshold would only show here).  Judged here against the same byte-list
    semantics as the model (update = splice at the offset, read = slice): expected bytes are computed with plain
    bytes slicing.  Returns a list of mismatch descriptions (each a replayable parameter record)."""
    bad = []; nprobes = 0
    PAD = 40
    def fill(b, cap):
        pat = (np.arange(cap, dtype=np.int64) * 7 % 253).astype(np.uint8).tobytes()
        b.update_from_buffer(0, pat)
        return pat
    def whole(b):
        buf = b.buffer
        return buf.view(np.uint8).tobytes() if isinstance(buf, np.ndarray) else bytes(buf)
    def note(prim, kind, n, off, extra, got, exp):
        if got != exp:
            m = min(len(got), len(exp))
            first = next((i for i in range(m) if got[i] != exp[i]), m)
            bad.append({"primitive": prim, "kind": kind, "n": n, "offset": off, "extra": extra, "first_wrong_byte": first,
                        "len_got": len(got), "len_expected": len(exp)})
    for kind in ("numpy", "bytearray"):
        for n in sizes:
            for off in (0, 8, 13):
                # ---- nplike, with and without conversion
                for sdt, ddt in (("float64", "float64"), ("int64", "float64"), ("float64", "float32"), ("int32", "int64"),
                                 ("int64", "int16"), ("uint8", "float64"), ("float32", "float64")):
                    src = (np.arange(n) % 251).astype(sdt)
                    dd = np.dtype(ddt)
                    cap = off + n * dd.itemsize + PAD
                    b = KINDS[kind](capacity=cap, context=CTX); pat = fill(b, cap)
                    nprobes += 1
                    try:
                        b.update_from_nplike(off, dd, src)
                        conv = src.astype(dd).tobytes()
                        note("update_from_nplike", kind, n, off, {"src": sdt, "dest": ddt}, whole(b), pat[:off] + conv + pat[off + len(conv):])
                    except BaseException as e:  # noqa
                        bad.append({"primitive": "update_from_nplike", "kind": kind, "n": n, "offset": off, "extra": {"src": sdt, "dest": ddt}, "raises": repr(e)[:200]})
                # ---- byte-wise primitives
                cap = off + n + PAD
                data = (np.arange(n + 5, dtype=np.int64) * 11 % 251).astype(np.uint8).tobytes()
                for prim in ("update_from_buffer", "update_from_native", "update_from_xbuffer/same", "update_from_xbuffer/other",
                             "update_from_xbuffer/otherkind", "to_bytearray", "to_native", "copy_to_native", "to_nplike", "grow"):
                    b = KINDS[kind](capacity=cap, context=CTX); pat = fill(b, cap)
                    nprobes += 1
                    try:
                        if prim == "update_from_buffer":
                            b.update_from_buffer(off, data[:n]); note(prim, kind, n, off, {}, whole(b), pat[:off] + data[:n] + pat[off + n:])
                        elif prim == "update_from_native":
                            b.update_from_native(off, native(kind, data), 3, n); note(prim, kind, n, off, {"src_offset": 3}, whole(b), pat[:off] + data[3:3 + n] + pat[off + n:])
                        elif prim.startswith("update_from_xbuffer"):
                            sk = {"same": kind, "other": kind, "otherkind": "bytearray" if kind == "numpy" else "numpy"}[prim.split("/")[1]]
                            sb = mkbuf(sk, data, CTX if prim.endswith("same") else CTX2)
                            b.update_from_xbuffer(off, sb, 2, n); note(prim, kind, n, off, {"src_offset": 2}, whole(b), pat[:off] + data[2:2 + n] + pat[off + n:])
                            note(prim + "/source-unchanged", kind, n, off, {}, whole(sb), data)
                        elif prim in ("to_bytearray", "to_native"):
                            r = getattr(b, prim)(off, n); note(prim, kind, n, off, {}, bytes(native_bytes(r)), pat[off:off + n])
                            note(prim + "/buffer-unchanged", kind, n, off, {}, whole(b), pat)
                        elif prim == "copy_to_native":
                            d = native(kind, data); b.copy_to_native(d, 4, off, n)
                            note(prim, kind, n, off, {"dest_offset": 4}, bytes(native_bytes(d)), data[:4] + pat[off:off + n] + data[4 + n:])
                            note(prim + "/buffer-unchanged", kind, n, off, {}, whole(b), pat)
                        elif prim == "to_nplike":
                            m8 = n // 8
                            o8 = off if off % 8 == 0 else 16
                            v = b.to_nplike(o8, np.dtype("int64"), (m8,))
                            note(prim, kind, n, o8, {}, v.tobytes(), pat[o8:o8 + 8 * m8])
                            v[m8 - 1] = -2; v[0] = -3
                            exp = bytearray(pat); exp[o8:o8 + 8] = np.int64(-3).tobytes(); exp[o8 + 8 * (m8 - 1):o8 + 8 * m8] = np.int64(-2).tobytes()
                            note(prim + "/write-through-view", kind, n, o8, {}, whole(b), bytes(exp))
                        elif prim == "grow":
                            b.grow(n + 3); got = whole(b)
                            note(prim, kind, n, off, {}, got[:cap], pat)
                            if len(got) < cap + n + 3: bad.append({"primitive": "grow", "kind": kind, "n": n, "offset": off, "extra": {}, "capacity_after": len(got)})
                    except BaseException as e:  # noqa
                        bad.append({"primitive": prim, "kind": kind, "n": n, "offset": off, "extra": {}, "raises": repr(e)[:200]})
    return bad, nprobes


def main():
    req = json.load(sys.stdin)
    out = []
    if "large" in req:
        bad, nprobes = large_probes(req["large"])
        print(json.dumps({"bad": bad, "probes": nprobes})); return
    if "replay" in req:
        for h in req["replay"]:
            # arrays for upd_nplike are rebuilt from their recorded description
            for op in h["ops"]:
                if op[0] == "upd_nplike":
                    ARRS[op[4]] = rebuild_arr(op)
            out.append({"kind": h["kind"], "init": h["init"], "ops": h["ops"], "steps": run_hist(h)})
    else:
        rng = random.Random(req["seed"])
        maxcap = req["maxcap"]
        # exhaustive single-primitive cases: every capacity <= maxcap, every primitive, several (off,len)
        if req.get("exhaustive"):
            for kind in ("numpy", "bytearray"):
                for cap in range(0, maxcap + 1):
                    for off in range(0, cap + 1):
                        for n in range(0, cap - off + 1):
                            init = rbytes(rng, cap)
                            ops = [["upd_native", off, rbytes(rng, n + 2), 1, n],
                                   ["copy_to_native", rbytes(rng, n + 3), 2, off, n],
                                   ["to_native", off, n], ["to_bytearray", off, n],
                                   ["upd_buffer", off, rbytes(rng, n), rng.choice(["bytes", "bytearray", "memoryview", "ndarray.data:uint8"])],
                                   ["upd_xbuffer", off, rbytes(rng, n + 1), 1, n, "numpy", "same"],
                                   ["upd_xbuffer", off, rbytes(rng, n + 1), 0, n, "bytearray", "other"],
                                   ["mk_view", off, "uint8", [n]], ["write_view", 0, 0, rbytes(rng, n)] if n else ["new_buffer", n],
                                   ["read_copy", 0], ["read_copy", 1]]
                            h = {"kind": kind, "init": init, "ops": ops}
                            out.append({"kind": kind, "init": init, "ops": ops, "steps": run_hist(h)})
        for i in range(req.get("n_hist", 0)):
            kind = rng.choice(["numpy", "bytearray"])
            cap = rng.choice([0, 1, 2, 4, 8, 8, 12, 16, 16, 24, 33])
            init = rbytes(rng, cap)
            ops = gen_ops(rng, kind, cap, req["n_ops"])
            h = {"kind": kind, "init": init, "ops": ops}
            out.append({"kind": kind, "init": init, "ops": ops, "steps": run_hist(h)})
    # the ARRS are not JSON: keep only their description (already in op[5])
    print(json.dumps({"hists": out}, default=str))


def rebuild_arr(op):
    d = op[5]
    conv = bytes(op[3])
    dest = np.dtype(op[2])
    # rebuild an array with the same converted bytes and the recorded layout/dtype where possible
    a = np.frombuffer(conv, dtype=dest).copy()
    lay = d["layout"]
    with np.errstate(all="ignore"):
        if lay in ("C2", "F2"):
            a = a.reshape(2, -1)
            if lay == "F2":
                a = np.asfortranarray(a)
        elif lay == "0d":
            a = a.reshape(())
        elif lay == "strided":
            b = np.zeros(2 * a.size, dtype=dest); b[::2] = a; a = b[::2]
        elif lay == "neg":
            a = a[::-1].copy()[::-1]
        elif lay == "bigendian":
            a = a.astype(dest.newbyteorder(">"))
    return a


main()
