"""Implementation side of K-KARG (C17): echo kernels compiled through the real ContextCpu pipeline.
Each case builds one context (serial or OpenMP), adds a family of kernels and performs calls whose outcome is
fully determined: what the kernel received is echoed back (scalar bits, first element, address - base through the
C API accessors), writes made by the kernel must be visible from Python at the right place. JSON in -> JSON out."""
import sys, json, traceback, struct
import numpy as np
import xobjects as xo
import xotypes as X

CT = {"Float64": "double", "Float32": "float", "Int64": "int64_t", "UInt64": "uint64_t", "Int32": "int32_t", "UInt32": "uint32_t",
      "Int16": "int16_t", "UInt16": "uint16_t", "Int8": "int8_t", "UInt8": "uint8_t"}


def bits(name, x):
    return list(np.asarray(x, dtype=X.DT[name]).tobytes())


def mkbuf(ctx, cap, kind):
    """a buffer of the context: its default kind, or the byte-array kind of the CPU context"""
    if kind == "bytearray":
        from xobjects.context_cpu import BufferByteArray
        return BufferByteArray(capacity=cap, context=ctx)
    return ctx.new_buffer(cap)


def run_case(c):
    ctx = xo.ContextCpu(omp_num_threads=c.get("omp", 0))
    out = {"calls": []}
    src = []
    kernels = {}
    names = c["scalars"]
    for n in names:
        T = getattr(xo, n); ct = CT[n]
        src.append("/*gpufun*/ %s echo_%s(%s x){ return x; }" % (ct, n, ct))
        kernels["echo_" + n] = xo.Kernel(args=[xo.Arg(T, name="x")], ret=xo.Arg(T))
        src.append("/*gpufun*/ %s first_%s(/*gpuglmem*/ %s* p){ %s r = p[0]; p[0] = (%s)(r + 1); return r; }" % (ct, n, ct, ct, ct))
        kernels["first_" + n] = xo.Kernel(args=[xo.Arg(T, pointer=True, name="p")], ret=xo.Arg(T))
    # one python object bound to two arguments of different declared types: each is converted for ITS type
    src.append("/*gpufun*/ double mix_fd(float a, double b){ return b + 0*a; }")
    kernels["mix_fd"] = xo.Kernel(args=[xo.Arg(xo.Float32, name="a"), xo.Arg(xo.Float64, name="b")], ret=xo.Arg(xo.Float64))
    src.append("/*gpufun*/ int64_t mix_di(double a, int64_t b){ return b + 0*(int64_t)a; }")
    kernels["mix_di"] = xo.Kernel(args=[xo.Arg(xo.Float64, name="a"), xo.Arg(xo.Int64, name="b")], ret=xo.Arg(xo.Int64))
    src.append("/*gpufun*/ float mix_df(double a, float b){ return b + 0*(float)a; }")
    kernels["mix_df"] = xo.Kernel(args=[xo.Arg(xo.Float64, name="a"), xo.Arg(xo.Float32, name="b")], ret=xo.Arg(xo.Float32))
    # a struct with a scalar, a dynamic array and a second scalar: read/write through the generated C API
    class KS(xo.Struct):
        a = xo.Int64
        v = xo.Float64[:]
        z = xo.Int32
    KS.__name__ = "KS"
    src.append("/*gpufun*/ int64_t ks_read(KS obj){ return KS_get_a(obj)*1000 + KS_get_z(obj); }")
    src.append("/*gpufun*/ void ks_write(KS obj, int64_t x){ KS_set_a(obj, x); KS_set_v(obj, 0, (double)x + 0.5); }")
    src.append("/*gpufun*/ double ks_two(KS p, KS q){ return KS_get_v(p, 0)*100 + KS_get_v(q, 0); }")
    kernels["ks_read"] = xo.Kernel(args=[xo.Arg(KS, name="obj")], ret=xo.Arg(xo.Int64))
    kernels["ks_write"] = xo.Kernel(args=[xo.Arg(KS, name="obj"), xo.Arg(xo.Int64, name="x")])
    kernels["ks_two"] = xo.Kernel(args=[xo.Arg(KS, name="p"), xo.Arg(KS, name="q")], ret=xo.Arg(xo.Float64))
    try:
        ctx.add_kernels(sources=["\n".join(src)], kernels=kernels)
    except BaseException as e:  # noqa
        return {"stage": "build", "exc": X.exc_class(e), "msg": str(e)[-400:]}
    K = ctx.kernels

    def attempt(tag, f, expect=None, **extra):
        r = {"tag": tag}
        r.update(extra)
        try:
            r["got"] = f(); r["ok"] = True
        except BaseException as e:  # noqa
            r["ok"] = False; r["exc"] = X.exc_class(e); r["msg"] = repr(e)[:200]
        if expect is not None: r["expect"] = expect
        out["calls"].append(r)
        return r

    for call in c["calls"]:
        k = call["k"]
        if k == "echo":
            n = call["type"]; x = X.np_scalar(n, call["bits"])
            attempt("echo/" + n, lambda: bits(n, getattr(K, "echo_" + n)(x=x)), expect=call["bits"])
            attempt("echo-python-number/" + n, lambda: bits(n, getattr(K, "echo_" + n)(x=x.item())), expect=call["bits"])
        elif k == "first_np":
            n = call["type"]
            base = np.arange(48, dtype=X.DT[n]).reshape(6, 8) if not n.startswith("Float") else (np.arange(48, dtype=X.DT[n]).reshape(6, 8) + 0.5)
            base = base.copy()
            view = eval(call["view"], {"m": base, "np": np})
            first = view.reshape(-1)[0] if view.flags.c_contiguous or view.flags.f_contiguous else view[tuple([0] * view.ndim)]
            first = view[tuple([0] * view.ndim)]
            fb = bits(n, first)
            def f():
                r = getattr(K, "first_" + n)(p=view)
                # the kernel incremented the element it was pointed at: it must be the caller's first element
                after = view[tuple([0] * view.ndim)]
                return {"ret": bits(n, r), "first_after": bits(n, after), "others_changed": int(np.sum(base != (np.arange(48, dtype=X.DT[n]).reshape(6, 8) + (0.5 if n.startswith("Float") else 0))) )}
            exp_after = bits(n, np.asarray(first, dtype=X.DT[n]) + np.asarray(1, dtype=X.DT[n]))
            attempt("first-numpy/%s/%s" % (call["viewkind"], n), f, expect={"ret": fb, "first_after": exp_after, "others_changed": 1})
        elif k == "first_xo":
            n = call["type"]
            A = getattr(xo, n)[:]
            buf = mkbuf(ctx, call.get("cap", 256), call.get("bufkind"))
            buf.allocate(call.get("pre", 8))
            vals = np.arange(5, dtype=X.DT[n]) + np.asarray(3, dtype=X.DT[n])
            arr = A(vals, _buffer=buf)
            if call.get("grow"): buf.grow(call["grow"])
            def f():
                r = getattr(K, "first_" + n)(p=arr)
                return {"ret": bits(n, r), "first_after": bits(n, arr[0]), "second": bits(n, arr[1])}
            attempt("first-xobject-array/%s%s%s" % (n, "/after-growth" if call.get("grow") else "", "/bytearray-buffer" if call.get("bufkind") else ""), f,
                    expect={"ret": bits(n, vals[0]), "first_after": bits(n, vals[0] + np.asarray(1, dtype=X.DT[n])), "second": bits(n, vals[1])})
        elif k == "reregister":
            # a kernel name is compiled, called, compiled again with another body and another argument type, called again
            def first():
                ctx.add_kernels(sources=["/*gpufun*/ int32_t rr(int32_t x){ return x + 1; }"], kernels={"rr": xo.Kernel(args=[xo.Arg(xo.Int32, name="x")], ret=xo.Arg(xo.Int32))})
                return int(ctx.kernels.rr(x=5))
            attempt("re-registered-kernel/first", first, expect=6)
            def second():
                ctx.add_kernels(sources=["/*gpufun*/ int64_t rr(int64_t x){ return x + 2; }"], kernels={"rr": xo.Kernel(args=[xo.Arg(xo.Int64, name="x")], ret=xo.Arg(xo.Int64))})
                return int(ctx.kernels.rr(x=2 ** 40))
            attempt("re-registered-kernel/second", second, expect=2 ** 40 + 2)
        elif k == "same_object":
            x = call["x"]
            attempt("same-object-for-two-arguments/float-double", lambda: bits("Float64", K.mix_fd(a=x, b=x)), expect=bits("Float64", np.float64(x)))
            attempt("same-object-for-two-arguments/double-float", lambda: bits("Float32", K.mix_df(a=x, b=x)), expect=bits("Float32", np.float32(x)))
            n = call["n"]
            attempt("same-object-for-two-arguments/double-int", lambda: int(K.mix_di(a=n, b=n)), expect=int(n))
        elif k == "wrong_dtype":
            n = call["type"]; other = call["other"]
            a = np.arange(4, dtype=(X.DT[other] if other in X.DT else other))
            r = attempt("refuse-wrong-element-type/%s-given-%s" % (n, other), lambda: bits(n, getattr(K, "first_" + n)(p=a)), refused_expected=True)
            r["array_untouched"] = bool(np.all(a == np.arange(4, dtype=(X.DT[other] if other in X.DT else other))))
        elif k == "struct":
            buf = mkbuf(ctx, call.get("cap", 128), call.get("bufkind"))
            objs = []
            for j in range(call["n_objs"]):
                if call.get("gaps"): buf.allocate(call["gaps"][j % len(call["gaps"])])
                objs.append(KS(a=10 + j, v=[1.0 + j, 2.0, 3.0][:call.get("vlen", 3)], z=j + 1, _buffer=buf))
            bk = "/bytearray-buffer" if call.get("bufkind") else ""
            attempt("struct-read" + bk, lambda: [int(K.ks_read(obj=o)) for o in objs], expect=[(10 + j) * 1000 + j + 1 for j in range(len(objs))])
            if call.get("grow"):
                for g in call["grow"]:
                    buf.grow(g)          # the storage is replaced: the handles must keep working
                    for j, o in enumerate(objs): o.a = 50 + j      # written from Python AFTER the growth
                    attempt("struct-read/after-growth" + bk, lambda: [int(K.ks_read(obj=o)) for o in objs], expect=[(50 + j) * 1000 + j + 1 for j in range(len(objs))])
            def w():
                for j, o in enumerate(objs): K.ks_write(obj=o, x=77 + j)
                return [[int(o.a), float(o.v[0]), int(o.z)] for o in objs]
            attempt("struct-write%s%s" % ("/after-growth" if call.get("grow") else "", bk), w, expect=[[77 + j, 77 + j + 0.5, j + 1] for j in range(len(objs))])
            if len(objs) >= 2:
                attempt("two-objects-one-buffer" + bk, lambda: float(K.ks_two(p=objs[0], q=objs[1])), expect=77.5 * 100 + 78.5)
        elif k == "refusals":
            n = call["type"]; x = X.np_scalar(n, call["bits"])
            attempt("refuse-positional", lambda: getattr(K, "echo_" + n)(x), refused_expected=True)
            attempt("refuse-missing", lambda: getattr(K, "echo_" + n)(), refused_expected=True)
            attempt("refuse-extra", lambda: getattr(K, "echo_" + n)(x=x, y=x), refused_expected=True)
            attempt("refuse-misnamed", lambda: getattr(K, "echo_" + n)(y=x), refused_expected=True)
    return out


def main():
    req = json.load(sys.stdin)
    res = []
    for c in req["cases"]:
        try:
            res.append(run_case(c))
        except BaseException as e:  # noqa
            res.append({"stage": "harness", "exc": X.exc_class(e), "msg": repr(e)[:300], "tb": traceback.format_exc()[-800:]})
    print(json.dumps({"results": res}, default=str))


main()
