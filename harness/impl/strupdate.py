"""Implementation side of the C03 probe of String.update (the stand-alone assignment method of a string): strings
created from a capacity or a text, packed between live neighbours in a poisoned buffer, then update(text).  Reports
whether it raised, the whole buffer before / after and the read-back.  JSON in -> JSON out."""
import sys, json
import numpy as np
import xobjects as xo
import xotypes as X
from xobjects.context_cpu import BufferNumpy, BufferByteArray


def snap(b):
    buf = b.buffer
    return list(buf.view(np.uint8).tobytes()) if isinstance(buf, np.ndarray) else list(bytes(buf))


def run(c):
    K = BufferNumpy if c["kind"] == "numpy" else BufferByteArray
    b = K(capacity=c["cap_buffer"], context=xo.ContextCpu(), default_alignment=1)
    b.update_from_buffer(0, bytes([0xA5]) * c["cap_buffer"])
    left = xo.Int64(7); lo = b.allocate(8); xo.Int64._to_buffer(b, lo, 7)
    s = xo.String(c["init"], _buffer=b)                # a capacity (int) or a text
    right_off = b.allocate(16)
    b.update_from_buffer(right_off, bytes(range(200, 216)))
    off, size = int(s._offset), int(s._size)
    before = snap(b)
    res = {"off": off, "size": size, "right_off": int(right_off)}
    try:
        via = s if c["via"] == "handle" else xo.String._from_buffer(b, off)
        if c.get("value_as") == "xobj":
            via.update(xo.String(c["text"]))
        else:
            via.update(c["text"])
        res["ok"] = True
    except BaseException as e:  # noqa
        res["ok"] = False; res["exc"] = X.exc_class(e); res["msg"] = repr(e)[:160]
    after = snap(b)
    res["outside_changed"] = [i for i in range(min(len(before), len(after))) if before[i] != after[i] and not (off <= i < off + size)][:8]
    res["inside_changed"] = any(before[i] != after[i] for i in range(off, off + size))
    res["size_after"] = int(xo.Int64._from_buffer(b, off))
    try:
        res["readback"] = xo.String._from_buffer(b, off).to_str() if hasattr(xo.String, "to_str") else str(xo.String._from_buffer(b, off))
    except BaseException as e:  # noqa
        res["readback_exc"] = repr(e)[:160]
    return res


def main():
    req = json.load(sys.stdin)
    print(json.dumps({"results": [run(c) for c in req["cases"]]}))


if __name__ == "__main__":
    main()
