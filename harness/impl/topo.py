"""Implementation side of K-TOPO (C14): builds real xobjects classes from a class-graph
description, asks xo.context.sort_classes for the emission order (and for a sample really
builds the C API with cffi), reports the outcome per case. JSON in -> JSON out."""
import sys, json, random, itertools, os, uuid
import numpy as np
import xobjects as xo

SCALARS = ["Float64", "Int64", "Int32", "UInt8", "Float32"]
_uid = [0]


def build_types(spec, tag, warm_roots=None):
    """spec: list of nodes {kind, ...}; returns list of python type objects"""
    T = []
    for i, d in enumerate(spec):
        k = d["kind"]
        if k == "scalar":
            t = getattr(xo, d["name"])
        elif k == "string":
            t = xo.String
        elif k == "struct":
            ns = {}
            for j, f in enumerate(d["fields"]):
                ns["f%d" % j] = T[f]
            # "same_name_as": another class of the same __name__ (the documented override: the last one listed is used)
            nm = "K%s_%d" % (tag, d.get("same_name_as", i))
            if d.get("name_case") == "lower": nm = "kq%s" % tag          # two classes whose names differ only in letter case
            if d.get("name_case") == "upper": nm = "KQ%s" % tag
            t = type(nm, (xo.Struct,), ns)
        elif k == "array":
            shape = d["shape"]
            key = tuple(None if s is None else s for s in shape)
            idx = tuple(slice(None) if s is None else s for s in shape)
            t = T[d["item"]][idx if len(idx) > 1 else idx[0]]
            if d.get("named"):       # class Cloud(Point[:]): a named array class (may carry _depends_on)
                t = type("A%s_%d" % (tag, i), (t,), {})
        elif k == "ref":
            t = xo.Ref[T[d["target"]]]
        elif k == "union":
            t = type("U%s_%d" % (tag, i), (xo.UnionRef,), {"_reftypes": [T[m] for m in d["members"]]})
        T.append(t)
    if warm_roots is not None:
        # the classes are sorted once BEFORE their graph is completed (declared dependencies / union members are
        # registered afterwards): whatever sort_classes remembers of a class must not survive the change
        try:
            xo.context.sort_classes([T[r] for r in warm_roots])
        except BaseException:  # noqa
            pass
    # late edges (may create cycles)
    for i, d in enumerate(spec):
        if d.get("depends"):
            if d.get("depends_append") and isinstance(getattr(T[i], "_depends_on", None), list):
                for j in d["depends"]: T[i]._depends_on.append(T[j])       # registered one by one on the class's own list
            else:
                T[i]._depends_on = [T[j] for j in d["depends"]]
        if d.get("late_members"):
            T[i]._reftypes.extend(T[j] for j in d["late_members"])
    return T


def run_case(c, do_build=False):
    _uid[0] += 1
    tag = "%d" % _uid[0]
    spec = c["spec"]
    T = build_types(spec, tag, c["roots"] if c.get("warm") else None)
    ident = {id(t): i for i, t in enumerate(T)}
    roots = [T[r] for r in c["roots"]]
    res = {}
    try:
        out = xo.context.sort_classes(list(roots))
        res["order"] = [ident.get(id(t), -1) for t in out]
        res["names"] = [getattr(t, "__name__", "?") for t in out]
    except ValueError as e:
        res["error"] = "ValueError"; res["msg"] = str(e)[:100]
    except BaseException as e:  # noqa
        res["error"] = type(e).__name__; res["msg"] = str(e)[:200]
    if do_build and "order" in res:
        try:
            ctx = xo.ContextCpu()
            ctx.add_kernels(kernels={}, extra_classes=list(roots))
            xo.context.sort_classes(list(roots))
            ctx2 = xo.ContextCpu()           # and once more: a build must leave the classes as it found them
            ctx2.add_kernels(kernels={}, extra_classes=list(roots))
            res["build"] = "ok"
        except BaseException as e:  # noqa
            res["build"] = "%s: %s" % (type(e).__name__, str(e)[:300])
    return res


# ---------------------------------------------------------------- generation
def gen_spec(rng, n):
    """random class graph: leaves first, then n compound classes"""
    spec = [{"kind": "scalar", "name": s} for s in rng.sample(SCALARS, 2)] + [{"kind": "string"}]
    compounds = []   # indices of struct/array/union (valid ref targets / union members)
    structs = []
    for _ in range(n):
        i = len(spec)
        r = rng.random()
        if r < 0.55 or not compounds:
            nf = rng.choice([0, 0, 1, 1, 2, 3])
            fields = [rng.randrange(i) for _ in range(nf)]
            spec.append({"kind": "struct", "fields": fields}); structs.append(i); compounds.append(i)
        elif r < 0.75:
            item = rng.randrange(i)
            shape = rng.choice([[None], [3], [None, 2], [2, None]])
            # arrays of the same item+shape are the same class in the library: reuse
            dup = [j for j, d in enumerate(spec) if d["kind"] == "array" and d["item"] == item and d["shape"] == shape]
            if dup:
                continue
            spec.append({"kind": "array", "item": item, "shape": shape}); compounds.append(i)
            if rng.random() < 0.3: spec[-1]["named"] = True
        elif r < 0.88:
            tgt = rng.choice(compounds)
            if any(d["kind"] == "ref" and d["target"] == tgt for d in spec):
                continue
            spec.append({"kind": "ref", "target": tgt})
        else:
            if not structs:     # the grammar is UnionRef[{Struct|Array}+]: at least one member
                continue
            ms = rng.sample(structs, min(len(structs), rng.choice([1, 1, 2])))
            spec.append({"kind": "union", "members": ms}); compounds.append(i)
    # declared dependencies, forward (acyclic) or backward (may close a cycle)
    for i in structs:
        if rng.random() < 0.3:
            cands = [j for j in structs if j != i]
            if cands:
                spec[i]["depends"] = rng.sample(cands, min(len(cands), rng.choice([1, 1, 2])))
                if rng.random() < 0.5: spec[i]["depends_append"] = True
    for i, d in enumerate(spec):
        # declared dependencies are honoured on every class kind
        if d["kind"] == "union" and structs and rng.random() < 0.25:
            cands = [j for j in structs if j not in d["members"]]
            if cands: d["depends"] = [rng.choice(cands)]
        if d["kind"] == "array" and d.get("named") and structs and rng.random() < 0.5:
            cands = [j for j in structs if j != d["item"]]
            if cands: d["depends"] = [rng.choice(cands)]
    for i, d in enumerate(spec):
        if d["kind"] == "union" and structs and rng.random() < 0.3:
            cands = [j for j in structs if j not in d["members"]]   # a union lists each member type once
            if cands:
                d["late_members"] = [rng.choice(cands)]
    return spec


def edges_of(spec):
    E = {}
    for i, d in enumerate(spec):
        k = d["kind"]
        e = []
        if k == "struct":
            e = list(d["fields"])
        elif k == "array":
            e = [d["item"]]
        elif k == "ref":
            e = [d["target"]]
        elif k == "union":
            e = list(d["members"]) + list(d.get("late_members", []))
        e += list(d.get("depends", []))
        E[i] = e
    return E


def exhaustive(n):
    """all directed graphs (incl. cyclic) on n struct classes; edge i->j by field when j<i else by _depends_on"""
    pairs = [(i, j) for i in range(n) for j in range(n) if i != j]
    for mask in range(1 << len(pairs)):
        spec = [{"kind": "struct", "fields": []} for _ in range(n)]
        for b, (i, j) in enumerate(pairs):
            if mask >> b & 1:
                if j < i:
                    spec[i]["fields"].append(j)
                else:
                    spec[i].setdefault("depends", []).append(j)
        yield spec


def main():
    req = json.load(sys.stdin)
    out = []
    if "replay" in req:
        for c in req["replay"]:
            out.append({"spec": c["spec"], "roots": c["roots"], "warm": c.get("warm", False), "res": run_case(c, do_build=c.get("build", True))})
    else:
        rng = random.Random(req["seed"])
        for n in range(1, req.get("exh_n", 0) + 1):
            for spec in exhaustive(n):
                for k in range(1, n + 1):
                    for roots in itertools.permutations(range(n), k):
                        if k > 1 and rng.random() > req.get("exh_root_frac", 1.0):
                            continue
                        c = {"spec": spec, "roots": list(roots)}
                        out.append({"spec": spec, "roots": list(roots), "res": run_case(c)})
        nb = req.get("n_builds", 0)
        for i in range(req.get("n_random", 0)):
            spec = gen_spec(rng, rng.randint(2, 7))
            api = [j for j, d in enumerate(spec) if d["kind"] in ("struct", "array", "ref", "union")]
            allc = list(range(len(spec)))
            k = rng.randint(1, min(4, len(api)))
            roots = rng.sample(api, k)
            if rng.random() < 0.15:
                roots.insert(rng.randrange(len(roots) + 1), rng.choice(allc))
                roots = list(dict.fromkeys(roots))
            # the documented override: a second root class with the NAME of an earlier root; it has the first one's
            # fields plus one more compound dependency; it is listed later, so it is the one that counts
            sroots = [r for r in roots if spec[r]["kind"] == "struct" and not spec[r].get("depends")]
            comp = [j for j, d in enumerate(spec) if d["kind"] in ("struct", "array", "union")]
            if sroots and comp and rng.random() < 0.2:
                r1 = rng.choice(sroots)
                extra = rng.choice(comp)
                if extra != r1 and r1 not in edges_of(spec).get(extra, []):
                    spec.append({"kind": "struct", "fields": list(spec[r1]["fields"]) + [extra], "same_name_as": r1})
                    roots.append(len(spec) - 1)
            c = {"spec": spec, "roots": roots, "warm": (i % 3 == 2) and any(d.get("depends") or d.get("late_members") for d in spec)}
            out.append({"spec": spec, "roots": roots, "warm": c["warm"], "res": run_case(c, do_build=(i < nb))})
        base = [{"kind": "scalar", "name": "Float64"}, {"kind": "struct", "fields": [0]}, {"kind": "struct", "fields": [0, 0]}, {"kind": "union", "members": [1], "depends": [2]},
                {"kind": "struct", "fields": [3, 0]}]
        for roots in ([4], [3]):
            c = {"spec": base, "roots": roots}
            out.append({"spec": base, "roots": roots, "res": run_case(c, do_build=True)})
        # directed: an array of single-type references to a class reachable by no other path
        base = [{"kind": "scalar", "name": "Float64"}, {"kind": "struct", "fields": [0]}, {"kind": "ref", "target": 1}, {"kind": "array", "item": 2, "shape": [None]},
                {"kind": "struct", "fields": [0, 3]}]
        for roots in ([4], [3]):
            c = {"spec": base, "roots": roots}
            out.append({"spec": base, "roots": roots, "res": run_case(c, do_build=True)})
        # directed: two classes whose names differ only in letter case, used together (really built)
        base = [{"kind": "scalar", "name": "Float64"}, {"kind": "struct", "fields": [0], "name_case": "lower"}, {"kind": "struct", "fields": [0, 0], "name_case": "upper"},
                {"kind": "struct", "fields": [1, 2]}]
        for roots in ([3], [2, 1], [1, 2, 3]):
            c = {"spec": base, "roots": roots}
            out.append({"spec": base, "roots": roots, "res": run_case(c, do_build=True)})
        # directed: a struct whose reference-holding field comes BEFORE a field of a compound type used nowhere else
        # (Ref / UnionRef / nested reference-holder first), alone as root and with the other type before / after it
        for first in ("ref", "union", "nested"):
            for later in ("struct", "array"):
                base = [{"kind": "scalar", "name": "Float64"}, {"kind": "struct", "fields": [0]}, {"kind": "struct", "fields": [0, 0]}]
                if first == "ref": base.append({"kind": "ref", "target": 1})
                elif first == "union": base.append({"kind": "union", "members": [1]})
                else: base += [{"kind": "ref", "target": 1}, {"kind": "struct", "fields": [3]}]
                fi = len(base) - 1
                li = 2
                if later == "array":
                    base.append({"kind": "array", "item": 2, "shape": [None]}); li = len(base) - 1
                base.append({"kind": "struct", "fields": [fi, li, 0]})
                top = len(base) - 1
                for roots in ([top], [top, li], [li, top], [top, 2]):
                    c = {"spec": base, "roots": roots}
                    out.append({"spec": base, "roots": roots, "res": run_case(c, do_build=(roots == [top]))})
    print(json.dumps({"cases": out}))


main()
