"""Implementation side of K-REF / K-COPY (C08, C09): histories over objects that hold references.
JSON in -> JSON out. See harness/c_refs.py for the op language."""
import sys, json, traceback, itertools
import numpy as np
import xobjects as xo
from xobjects.context_cpu import BufferNumpy, BufferByteArray
import xotypes as X
from layout import snap
from update import unravel

NULLVALUE = -(2 ** 63)
import resource, signal
resource.setrlimit(resource.RLIMIT_AS, (4 << 30, 4 << 30))   # a runaway allocation must fail, not eat the machine


class Timeout(Exception):
    pass


def _alarm(sig, frm):
    raise Timeout()


signal.signal(signal.SIGALRM, _alarm)


def mkbufs(prep):
    ctx0 = xo.ContextCpu(); ctx1 = xo.ContextCpu()
    K = BufferNumpy if prep["kind"] == "numpy" else BufferByteArray
    bufs = {"B0": K(capacity=prep["cap"], context=ctx0, default_alignment=prep["al"]),
            "B1": K(capacity=prep["cap"], context=ctx0, default_alignment=prep["al"]),
            "B2": K(capacity=prep["cap"], context=ctx1, default_alignment=prep["al"])}
    logs = {}
    for name, b in bufs.items():
        if b.capacity:
            b.update_from_buffer(0, bytes([prep["poison"]]) * b.capacity)
        logs[name] = []
        def wrap(b=b, log=logs[name]):
            orig = b.allocate
            def walloc(size, align=True):
                o = orig(size, align=align); log.append([int(o), int(size)]); return o
            b.allocate = walloc
        wrap()
    return bufs, logs


def nav(t, obj, path):
    """follow accessors, crossing references; returns (type, object)"""
    for kind, i in path:
        if kind == "f":
            fname, ft = t["fields"][i]
            obj = getattr(obj, fname); t = ft
        elif kind == "i":
            idx = unravel(i, [int(s) for s in obj._shape])
            obj = obj[idx if len(idx) > 1 else idx[0]]; t = t["item"]
        if t["k"] == "ref" and obj is not None:
            t = t["target"]
        elif t["k"] == "union" and obj is not None:
            names = [X.build(m).__name__ for m in t["members"]]
            t = t["members"][names.index(obj.__class__.__name__)]
    return t, obj


def assign_at(t, obj, path, pyval):
    pt, parent = nav(t, obj, path[:-1])
    kind, i = path[-1]
    if kind == "f":
        setattr(parent, pt["fields"][i][0], pyval)
    else:
        idx = unravel(i, [int(s) for s in parent._shape])
        parent[idx if len(idx) > 1 else idx[0]] = pyval


def ref_slots(t, obj, b, base_path=()):
    """raw content of every reference slot reachable WITHOUT crossing references"""
    out = []
    k = t["k"]
    if k == "struct":
        for i, (fname, ft) in enumerate(t["fields"]):
            off = int(obj._get_offset(fname))
            if ft["k"] == "ref":
                rel = int(xo.Int64._from_buffer(b, off))
                out.append({"path": list(base_path) + [["f", i]], "slot": off, "rel": rel, "tid": None})
            elif ft["k"] == "union":
                rel = int(xo.Int64._from_buffer(b, off)); tid = int(xo.Int64._from_buffer(b, off + 8))
                out.append({"path": list(base_path) + [["f", i]], "slot": off, "rel": rel, "tid": tid})
            elif ft["k"] in ("struct", "array"):
                out += ref_slots(ft, getattr(obj, fname), b, tuple(base_path) + (["f", i],))
    elif k == "array":
        it = t["item"]
        shape = [int(s) for s in obj._shape]
        for c, idx in enumerate(itertools.product(*[range(s) for s in shape])):
            off = int(obj._get_offset(idx if len(idx) > 1 else idx[0]))
            if it["k"] == "ref":
                out.append({"path": list(base_path) + [["i", c]], "slot": off, "rel": int(xo.Int64._from_buffer(b, off)), "tid": None})
            elif it["k"] == "union":
                out.append({"path": list(base_path) + [["i", c]], "slot": off, "rel": int(xo.Int64._from_buffer(b, off)),
                            "tid": int(xo.Int64._from_buffer(b, off + 8))})
            elif it["k"] in ("struct", "array"):
                out += ref_slots(it, obj[idx if len(idx) > 1 else idx[0]], b, tuple(base_path) + (["i", c],))
    return out


def run_case(c):
    bufs, logs = mkbufs(c["prep"])
    objs = {}      # name -> (type, object, bufname)
    res = {"steps": []}
    for op in c["ops"]:
        st = {"op": op["op"]}
        marks = {k: len(v) for k, v in logs.items()}
        try:
            signal.alarm(20)
            o = op["op"]
            if o == "new":
                T = X.build(op["type"])
                obj = T(X.to_input(op["type"], op["value"], "py"), _buffer=bufs[op["buf"]])
                objs[op["name"]] = (op["type"], obj, op["buf"])
            elif o == "copy":
                t, src, sb = objs[op["src"]]
                T = X.build(t)
                obj = T(src, _buffer=bufs[op["buf"]])
                objs[op["name"]] = (t, obj, op["buf"])
            elif o == "bind":
                t, obj, bn = objs[op["obj"]]
                top = obj if op.get("via", "handle") == "handle" else X.build(t)._from_buffer(bufs[bn], obj._offset)
                src = op["src"]
                if src["kind"] == "null":
                    pyval = None
                elif src["kind"] in ("existing", "foreign"):
                    pyval = objs[src["name"]][1]
                else:
                    pyval = X.to_input(src["type"], src["value"], "py")
                    if src.get("member_name"):
                        pyval = (X.build(src["type"]).__name__, pyval)
                assign_at(t, top, [tuple(s) for s in op["path"]], pyval)
            elif o == "assign":
                t, obj, bn = objs[op["obj"]]
                top = obj if op.get("via", "handle") == "handle" else X.build(t)._from_buffer(bufs[bn], obj._offset)
                assign_at(t, top, [tuple(s) for s in op["path"]], objs[op["src"]][1])
            elif o == "write":
                t, obj, bn = objs[op["obj"]]
                top = obj if op.get("via", "handle") == "handle" else X.build(t)._from_buffer(bufs[bn], obj._offset)
                assign_at(t, top, [tuple(s) for s in op["path"]], X.to_input(op["type"], op["new"], "py"))
            elif o == "grow":
                b = bufs[op["buf"]]; b.grow(op.get("extra", 64))   # relocates the storage like an allocation that does not fit
            st["ok"] = True
        except BaseException as e:  # noqa
            st["ok"] = False; st["exc"] = X.exc_class(e); st["msg"] = repr(e)[:300]; st["tb"] = traceback.format_exc()[-500:]
        finally:
            signal.alarm(0)
        if not st["ok"] and st["exc"] in ("MemoryError", "Other:Timeout"):
            res["steps"].append(st); break     # the buffers may be huge now: stop this history
        st["allocs"] = {k: v[marks[k]:] for k, v in logs.items() if len(v) > marks[k]}
        snapshot = {}
        for name, (t, obj, bn) in objs.items():
            e = {"off": int(obj._offset), "buf": bn, "size": int(obj._size)}
            try:
                e["read"] = X.readback(t, obj)
            except BaseException as ex:  # noqa
                e["read_exc"] = X.exc_class(ex); e["read_msg"] = repr(ex)[:200]
            try:
                e["view_read"] = X.readback(t, X.build(t)._from_buffer(bufs[bn], obj._offset))
            except BaseException as ex:  # noqa
                e["view_exc"] = X.exc_class(ex)
            try:
                e["slots"] = ref_slots(t, obj, bufs[bn])
            except BaseException as ex:  # noqa
                e["slots_exc"] = X.exc_class(ex) + repr(ex)[:100]
            snapshot[name] = e
        st["objs"] = snapshot
        if op.get("dump"):
            st["mem"] = {k: snap(b) for k, b in bufs.items()}
        res["steps"].append(st)
    res["all_allocs"] = logs
    res["caps"] = {k: int(b.capacity) for k, b in bufs.items()}
    return res


def main():
    req = json.load(sys.stdin)
    out = []
    for c in req["cases"]:
        try:
            out.append(run_case(c))
        except BaseException as e:  # noqa
            out.append({"stage": "harness", "exc": X.exc_class(e), "msg": repr(e)[:300], "tb": traceback.format_exc()[-800:]})
    print(json.dumps({"results": out}))


if __name__ == "__main__":
    main()
