"""Implementation side of K-PICKLE-plain (C20): plain xobjects (structs, arrays of any rank / axis order, strings inside)
are pickled and restored; everything observable of the restored object is reported.  JSON in -> JSON out."""
import sys, json, pickle, traceback
import numpy as np
import xobjects as xo
import xotypes as X
from layout import prepare_buffer, snap, caches


def run_case(c):
    t = c["type"]; v = c["value"]
    T = X.build(t)
    # pickle stores classes by reference: make the class importable, as a class defined in a user module is
    T.__module__ = "__main__"; T.__qualname__ = T.__name__
    setattr(sys.modules["__main__"], T.__name__, T)
    b, live = prepare_buffer(c["prep"])
    res = {}
    try:
        obj = T(X.to_input(t, v, "py"), _buffer=b)
        res["orig_read"] = X.readback(t, obj)
    except BaseException as e:  # noqa
        return {"stage": "construct", "exc": X.exc_class(e), "msg": repr(e)[:200]}
    is_scalar_array = t["k"] == "array" and t["item"]["k"] == "scalar" and len(v["items"]) > 0
    if is_scalar_array and c.get("view_before", True):
        try:
            obj.to_nplike()      # a user may have looked at the data as an array before pickling
        except BaseException:  # noqa
            pass
    try:
        group = [obj]
        if c.get("with_sibling"):
            group.append(T(X.to_input(t, v, "py"), _buffer=b))
        back = pickle.loads(pickle.dumps(group))
        p = back[0]
    except BaseException as e:  # noqa
        return {"stage": "pickle", "exc": X.exc_class(e), "msg": repr(e)[:300], "tb": traceback.format_exc()[-500:]}
    res["off"] = int(p._offset); res["size"] = int(p._size)
    res["orig_off"] = int(obj._offset); res["orig_size"] = int(obj._size)
    res["after"] = snap(p._buffer)
    res["shares_storage_with_original"] = bool(p._buffer is obj._buffer)
    try:
        res["readback"] = X.readback(t, p)
    except BaseException as e:  # noqa
        res["readback_exc"] = X.exc_class(e); res["readback_msg"] = repr(e)[:300]
    try:
        res["view_readback"] = X.readback(t, T._from_buffer(p._buffer, p._offset))
    except BaseException as e:  # noqa
        res["view_exc"] = X.exc_class(e)
    try:
        res["caches"] = caches(t, p); res["orig_caches"] = caches(t, obj)
    except BaseException as e:  # noqa
        res["caches_exc"] = X.exc_class(e)
    # the restored object is fully usable: a write through its array view is seen by every other access
    if is_scalar_array:
        try:
            a = p.to_nplike()
            flat = a.reshape(-1) if hasattr(a, "reshape") else a
            before0 = X.readback(t, p)["items"][0]
            newb = bytes((b + 1) & 0xFF for b in before0)
            idx0 = tuple(0 for _ in p._shape)
            a[idx0] = np.frombuffer(newb, dtype=a.dtype)[0]
            after0 = X.readback(t, p)["items"][0]
            res["write_through_view"] = {"wrote": list(newb), "item_reads": after0,
                                         "view_item_reads": X.readback(t, T._from_buffer(p._buffer, p._offset))["items"][0]}
        except BaseException as e:  # noqa
            res["write_through_view_exc"] = X.exc_class(e) + ": " + repr(e)[:200]
    # its context is a working context: new buffers, copies into it
    try:
        ctx2 = p._buffer.context
        nb = ctx2.new_buffer(64)
        q = T(p, _context=ctx2)
        res["copy_in_restored_context"] = X.readback(t, q) == X.readback(t, p)
    except BaseException as e:  # noqa
        res["restored_context_exc"] = X.exc_class(e) + ": " + repr(e)[:200]
    if len(back) > 1:
        res["sibling_same_buffer"] = bool(back[1]._buffer is p._buffer)
        res["sibling_off"] = [int(back[1]._offset), int(group[1]._offset)]
    return res


def main():
    req = json.load(sys.stdin)
    out = []
    for c in req["cases"]:
        try:
            out.append(run_case(c))
        except BaseException as e:  # noqa
            out.append({"stage": "harness", "exc": X.exc_class(e), "msg": repr(e)[:300], "tb": traceback.format_exc()[-800:]})
    print(json.dumps({"results": out}))


if __name__ == "__main__":
    main()
