"""Implementation side of K-PICKLE-plain (C20): plain xobjects (structs, arrays of any rank / axis order, strings inside)
are pickled and restored; everything observable of the restored object is reported.  JSON in -> JSON out."""
import sys, json, pickle, traceback
import numpy as np
import xobjects as xo
import xotypes as X
from layout import prepare_buffer, snap, caches


def run_case(c):
    t = c["type"]; v = c["value"]
    T = X.build(t)
    # pickle stores classes by reference: make the class importable, as a class defined in a user module is
    T.__module__ = "__main__"; T.__qualname__ = T.__name__
    setattr(sys.modules["__main__"], T.__name__, T)
    b, live = prepare_buffer(c["prep"])
    res = {}
    try:
        obj = T(X.to_input(t, v, "py"), _buffer=b)
        res["orig_read"] = X.readback(t, obj)
    except BaseException as e:  # noqa
        return {"stage": "construct", "exc": X.exc_class(e), "msg": repr(e)[:200]}
    try:
        group = [obj]
        if c.get("with_sibling"):
            group.append(T(X.to_input(t, v, "py"), _buffer=b))
        back = pickle.loads(pickle.dumps(group))
        p = back[0]
    except BaseException as e:  # noqa
        return {"stage": "pickle", "exc": X.exc_class(e), "msg": repr(e)[:300], "tb": traceback.format_exc()[-500:]}
    res["off"] = int(p._offset); res["size"] = int(p._size)
    res["orig_off"] = int(obj._offset); res["orig_size"] = int(obj._size)
    res["after"] = snap(p._buffer)
    res["shares_storage_with_original"] = bool(p._buffer is obj._buffer)
    try:
        res["readback"] = X.readback(t, p)
    except BaseException as e:  # noqa
        res["readback_exc"] = X.exc_class(e); res["readback_msg"] = repr(e)[:300]
    try:
        res["view_readback"] = X.readback(t, T._from_buffer(p._buffer, p._offset))
    except BaseException as e:  # noqa
        res["view_exc"] = X.exc_class(e)
    try:
        res["caches"] = caches(t, p); res["orig_caches"] = caches(t, obj)
    except BaseException as e:  # noqa
        res["caches_exc"] = X.exc_class(e)
    if len(back) > 1:
        res["sibling_same_buffer"] = bool(back[1]._buffer is p._buffer)
        res["sibling_off"] = [int(back[1]._offset), int(group[1]._offset)]
    return res


def main():
    req = json.load(sys.stdin)
    out = []
    for c in req["cases"]:
        try:
            out.append(run_case(c))
        except BaseException as e:  # noqa
            out.append({"stage": "harness", "exc": X.exc_class(e), "msg": repr(e)[:300], "tb": traceback.format_exc()[-800:]})
    print(json.dumps({"results": out}))


if __name__ == "__main__":
    main()
