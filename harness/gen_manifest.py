#!/usr/bin/env python3
"""writes /verif/MANIFEST.json from the table below (keeps it schema-valid)"""
import json, os
V = os.path.dirname(os.path.dirname(os.path.abspath(__file__)))
BASE_OFF = "cd /repo && /venv/bin/python -m pytest -ra -q -p no:cacheprovider --timeout=900 --continue-on-collection-errors"
TB = ("Trusted: Coq 8.16.1 kernel (vm_compute, no native_compute), no axioms (Print Assumptions: closed), the hand-written "
      "Gallina model/spec, the harness (generators, impl runner, literal printer). Modelled not verified: the Python source; "
      "the tie is re-checked on every run by evaluating the Coq checkers on transitions observed from /repo's working tree.")
CHECKS = {
 "C04": dict(technique="Coq proof: invariant by induction over every trace of a relational safety spec + certified checker (safe_stepb_sound) evaluated by vm_compute on observed allocator transitions",
             text="Theorems (closed): the safety invariant (pairwise disjoint, in bounds, aligned, free/live disjoint) is preserved by every step the byte-level relation safe_step allows, hence after all histories; the first-fit spec refines it; the boolean checker is sound. Every transition observed from the real XBuffer (both CPU kinds) is judged by that checker inside Coq; live bytes are pattern-checked after every step.",
             ref="DESIGN.md §7 C04"),
 "C12": dict(technique="Coq proof: relational first-fit spec over canonical free lists (maximal runs), invariant incl. accounting over all traces, certified checker (ff_stepb_sound) evaluated by vm_compute on observed transitions",
             text="Theorems (closed): for every trace of the first-fit spec: lowest aligned fit among free-or-new bytes, growth only when nothing fits, monotone capacity, free never errs and frees exactly the region, coalescing corollary, progress, accounting |free|+live+lost=cap. Observed transitions of the real allocator must satisfy the certified checker; a rejected transition is itself the failing history.",
             ref="DESIGN.md §7 C12"),
 "C13": dict(technique="Coq proof: byte-list model of every CPU buffer primitive with frame/read-back/aliasing/independence theorems + certified history checker evaluated by vm_compute on observed buffers",
             text="Theorems (closed): every updating primitive changes exactly [off,off+len) to the source bytes and nothing else (capacity included); extraction returns exactly the requested bytes; copies are independent values, views read what was last written; grow keeps every old byte. Both CPU buffer kinds are run on exhaustive small scopes and random histories; the whole buffer and returned bytes after every call are compared with the model inside Coq.",
             ref="DESIGN.md §7 C13", note=TB + " numpy's dtype conversion is numpy's (expected converted bytes computed with numpy)."),
 "C14": dict(technique="Coq proof: certified checker for emission orders (closure = reachability, duplicate-free, complete, dependencies first) and certified cycle / acyclicity certificates, evaluated by vm_compute on the order the real sort_classes emits",
             text="Theorems (closed): the checker's closure is exactly reachability through fields/items/ref targets/union members/_depends_on; an accepted order is duplicate-free, is exactly the reachable API-bearing classes and puts every class after all it uses; a valid order excludes cycles; cycle and rank certificates are sound. Real classes are generated (exhaustive small graphs incl. cyclic, random larger ones), the real sort_classes output is judged inside Coq, and a sample is really compiled with cffi (supporting).",
             ref="DESIGN.md §7 C14", note=TB + " 'The emitted source compiles' is a runtime fact checked by real cffi builds on a sample (supporting test, not a theorem)."),
}
NOT_YET = {}
def main():
    props = [json.loads(l) for l in open(os.path.join(V, "properties.jsonl"))]
    checks = []
    na = []
    for p in props:
        i = p["id"]
        if i in CHECKS:
            c = CHECKS[i]
            checks.append(dict(property_id=i, quick_cmd="./check %s --tier quick" % i, thorough_cmd="./check %s --tier thorough" % i,
                               evidence_file="/verif/evidence/%s.json" % i, replay_cmd_template="./check %s --replay {path}" % i,
                               engine="coq-proof+correspondence",
                               level_claimed=dict(category=c.get("category", "proof"), text=c["text"], design_ref=c["ref"]),
                               level_note=c.get("note", TB), technique=c["technique"]))
        else:
            na.append(dict(property_id=i, reason=NOT_YET.get(i, "check not built yet in this round (planned, see DESIGN.md §12); not claimed until its model, theorems and tie exist")))
    m = dict(version=1, setup_cmd="./setup.sh",
             hooks=dict(guard="XOBJECTS_VERIF", enable="none needed: no hooks are installed in /repo (the guard name is reserved and unused)",
                        baseline_off_cmd=BASE_OFF, source_commits=[], add_only=True),
             engines=[dict(name="coq-proof+correspondence", path="/verif/check", serves_properties=sorted(CHECKS),
                           kind_free_text="Rocq/Coq 8.16.1 theorems about hand-written Gallina models/specs; certified checkers evaluated with vm_compute on behaviour observed from /repo on every run")],
             checks=checks, not_applicable=na,
             notes="See DESIGN.md. fix: commits in /repo are listed in KNOWN_FINDINGS.json (status fixed). KNOWN_FINDINGS.json lists fixed/known defects.")
    json.dump(m, open(os.path.join(V, "MANIFEST.json"), "w"), indent=1)
main()
