#!/usr/bin/env python3
"""writes /verif/MANIFEST.json from the table below (keeps it schema-valid)"""
import json, os
V = os.path.dirname(os.path.dirname(os.path.abspath(__file__)))
BASE_OFF = "cd /repo && /venv/bin/python -m pytest -ra -q -p no:cacheprovider --timeout=900 --continue-on-collection-errors"
TB = ("Trusted: Coq 8.16.1 kernel (vm_compute, no native_compute), no axioms (Print Assumptions: closed), the hand-written "
      "Gallina model/spec, the harness (generators, impl runner, literal printer). Modelled not verified: the Python source; "
      "the tie is re-checked on every run by evaluating the Coq checkers on transitions observed from /repo's working tree.")
CHECKS = {
 "C04": dict(technique="Coq proof: invariant by induction over every trace of a relational safety spec + certified checker (safe_stepb_sound) evaluated by vm_compute on observed allocator transitions",
             text="Theorems (closed): the safety invariant (pairwise disjoint, in bounds, aligned, free/live disjoint) is preserved by every step the byte-level relation safe_step allows, hence after all histories; the first-fit spec refines it; the boolean checker is sound. Every transition observed from the real XBuffer (both CPU kinds) is judged by that checker inside Coq; live bytes are pattern-checked after every step.",
             ref="DESIGN.md §7 C04"),
 "C12": dict(technique="Coq proof: relational first-fit spec over canonical free lists (maximal runs), invariant incl. accounting over all traces, certified checker (ff_stepb_sound) evaluated by vm_compute on observed transitions",
             text="Theorems (closed): for every trace of the first-fit spec: lowest aligned fit among free-or-new bytes, growth only when nothing fits, monotone capacity, free never errs and frees exactly the region, coalescing corollary, progress, accounting |free|+live+lost=cap. Observed transitions of the real allocator must satisfy the certified checker; a rejected transition is itself the failing history.",
             ref="DESIGN.md §7 C12"),
 "C13": dict(technique="Coq proof: byte-list model of every CPU buffer primitive with frame/read-back/aliasing/independence theorems + certified history checker evaluated by vm_compute on observed buffers",
             text="Theorems (closed): every updating primitive changes exactly [off,off+len) to the source bytes and nothing else (capacity included); extraction returns exactly the requested bytes; copies are independent values, views read what was last written; grow keeps every old byte. Both CPU buffer kinds are run on exhaustive small scopes and random histories; the whole buffer and returned bytes after every call are compared with the model inside Coq.",
             ref="DESIGN.md §7 C13", note=TB + " numpy's dtype conversion is numpy's (expected converted bytes computed with numpy)."),
 "C14": dict(technique="Coq proof: certified checker for emission orders (closure = reachability, duplicate-free, complete, dependencies first) and certified cycle / acyclicity certificates, evaluated by vm_compute on the order the real sort_classes emits",
             text="Theorems (closed): the checker's closure is exactly reachability through fields/items/ref targets/union members/_depends_on; an accepted order is duplicate-free, is exactly the reachable API-bearing classes and puts every class after all it uses; a valid order excludes cycles; cycle and rank certificates are sound. Real classes are generated (exhaustive small graphs incl. cyclic, random larger ones), the real sort_classes output is judged inside Coq, and a sample is really compiled with cffi (supporting).",
             ref="DESIGN.md §7 C14", note=TB + " 'The emitted source compiles' is a runtime fact checked by real cffi builds on a sample (supporting test, not a theorem)."),
 "C05": dict(technique="Coq: the documented format as encoder + strict decoder (Format.v); round-trip theorems; certified judgement layout_ok evaluated by vm_compute on the bytes of every constructed object",
             text="The documented layout is formalised as an encoder and an independent strict decoder (validates every size word, stride, offset table, string padding). Proved (closed): header-word codec, slot arithmetic, decode(encode) for leaves at any offset of any buffer, images embedded in a buffer decode where they sit, soundness of the judgement. decode(encode) for compound types is evaluated in Coq on examples and on every generated case (the general induction over the type grammar is staged). Tie: the bytes of every object the real library constructs must match the documented image under the defined-bytes mask AND be decoded back to the value by the independent decoder, inside Coq.",
             ref="DESIGN.md §7 C05"),
 "C01": dict(technique="Coq: reader of the documented format returns the written value (leaves proved, strides/axis-permutation lemma proved for all ranks); correspondence: every accessor of every constructed object compared with the input, bytes judged by layout_ok in Coq",
             text="Theorems (closed): read-back of leaves at any placement incl. the capacity form; N-D any-axis-order addressing (strides_permute, position bijection) for all ranks. Tie: generated (type, value, input form, placement, buffer history) cases on both CPU buffer kinds: every field/item/nested accessor and to_nparray compared bit-exactly with the input; the object's bytes are judged against the documented format in Coq.",
             ref="DESIGN.md §7 C01"),
 "C03": dict(technique="Coq: frame lemma for writes, nesting/disjointness of sub-images, size = extent via the certified judgement; correspondence: whole-buffer diff around every constructed object placed among poisoned bytes and live neighbours",
             text="Theorems (closed): a write of an image changes exactly its extent; an image that is a concatenation of parts sits in memory iff the parts sit at consecutive offsets (nested, disjoint); accepted observations have reported size = image length. Tie: every byte outside the object's extent and outside regions it allocated must be unchanged (poison-filled buffers with live neighbours), reported size = stored size = allocated length.",
             ref="DESIGN.md §7 C03"),
 "C06": dict(technique="Coq: the decoder is a function of the bytes only (same value wherever and through whichever handle); strides lemma; correspondence: handle vs view rebuilt from (buffer, offset) compared on values, size, shape, strides, every item/field offset",
             text="Theorems (closed): decoding depends on the bytes only (leaves), stride addressing for any axis order. Tie: for every constructed object a view made by _from_buffer(buffer, offset) is compared with the constructor's handle on every observable (values at every index, _size, _shape, _strides, all item and field offsets); nested compounds are reached through views by construction of the read-back.",
             ref="DESIGN.md §7 C06"),
 "C10": dict(technique="Coq: get/set laws on value trees for paths of any depth + capacity-preserving assignment (Update.assign), certified history judgement; correspondence: assignment histories through handles and views with full re-read, whole-buffer diff and bytes judged in Coq",
             text="Theorems (closed): the assigned element reads back as the assigned value, every element on a diverging path is unchanged (any depth), strings keep the size fixed at creation, soundness of the history judgement (after every accepted step the object's bytes are the documented image of the updated value, same size). Tie: histories of fitting assignments (leaves and whole nested structs/arrays, plain data or numpy) through the constructor handle or fresh views, interleaved with buffer growth; after each step full re-read through handle and view, buffer diff outside the object, and the bytes judged in Coq against the model's updated value.",
             ref="DESIGN.md §7 C10"),
 "C11": dict(technique="Coq: the model decides which assignments can be honoured (element exists, same shape, every string within the capacity fixed at creation); certified history judgement; correspondence: every misuse class on objects with live neighbours must raise and leave all bytes unchanged",
             text="Theorems (closed): too-large strings, missing elements and other shapes are refused by the model; in an accepted history every refused operation left the object the image of the unchanged value; sizes never change. Tie: generated misuse (string/nested item too large, update of other length or shape, index outside the shape incl. negative, buffer of another context, offset without buffer) interleaved with fitting operations: must raise, whole buffer unchanged, later reads unaffected.",
             ref="DESIGN.md §7 C11"),
 "C08": dict(technique="Coq: abstract store with object identity (RefOps) with alias / freshness / null theorems, byte-level reference decoding in the strict decoder; correspondence: reference histories over three buffers compared step by step with the store, final buffers decoded in Coq",
             text="Theorems (closed): binding to an existing object makes the slot denote that object and later writes to it are what the reference reads; binding plain data creates a new identity and leaves every other object untouched; null reads as nothing (byte level: reserved offset, member index -1 required for unions); growth keeps every byte at its offset, and references are slot-relative, so decoding is unchanged. Tie: generated type worlds (Ref, UnionRef, arrays of them, nested, references to reference-bearing structs) and histories {construct, bind existing/value/foreign/null through handle or view, write through reference or original, growth}: after every step deep reads through handle and view and the raw content of every reference slot (target address, member index, inside a logged allocation, stable across growth, equal for aliases) are compared with the store; final buffers are decoded by the strict decoder inside Coq.",
             ref="DESIGN.md §7 C08"),
 "C09": dict(technique="Coq: deep value depends only on reachable objects, a write touches one object (RefOps), byte-level frame lemma; correspondence: copy construction into same buffer / other buffer / other context followed by writes on either side, compared with the store model, final buffers decoded in Coq",
             text="Theorems (closed): the deep value of an object depends only on the objects it reaches; a write changes exactly one object; hence a copy whose referents were duplicated is unaffected by writes to the original and vice versa; a written image leaves all bytes outside its extent alone. Tie: histories with copy construction (shared referents in the same buffer, duplicates otherwise) and subsequent writes/rebinds on either side, over reference-bearing types at any depth incl. arrays of reference-bearing structs; values, aliasing of referents, extent disjointness checked after every step; final buffers decoded in Coq.",
             ref="DESIGN.md §7 C09"),
 "C02": dict(category="translation_validation", technique="translator from the emitted C text to a straight-line language + certified validator in Coq (normaliser soundness, symbolic execution soundness: validate_sound / cfun_ok_sound) against the documented layout's address expression; cross-checked by really compiled accessors",
             text="Every accessor the library emits for every access path of generated types (on the current source) is translated (fail closed) and validated inside Coq: an accepted accessor provably computes the layout's address expression for ALL index values and ALL header words (the symbolic form of the claim). The address expression follows the strict decoder of C05. A subset of types is compiled with cffi and get/getp/len/typeid/member are called on real objects at non-zero offsets and compared with the Python accessors.",
             ref="DESIGN.md §7 C02", note=TB + " Trusted additionally: the C-text translator harness/impl/capi.py (cross-checked by compiled execution) and CExpr.cexec as the semantics of the accessor subset of C."),
 "C07": dict(category="translation_validation", technique="as C02 for every emitted setter (certified validator) + frame lemma for the store; compiled setters executed on real objects with whole-buffer diff and Python re-read",
             text="Every emitted setter is validated in Coq to store at exactly the layout's address of the element (all indices, all headers); a store of the value's bytes there provably changes exactly those bytes. Compiled setters are called on real objects: bytes written = value, no byte outside the element changes, Python reads the value back. The 'no undefined behaviour under sanitizers' clause is partial: bounds of header loads follow from the validated address expression on well-formed objects, compiler-level UB is not modelled.",
             ref="DESIGN.md §7 C07", note=TB + " Partial: sanitizer clause not proved; see DESIGN."),
 "C15": dict(category="translation_validation", technique="the text each target receives from the real specialize_source is translated separately; certified pairwise equivalence in Coq (cpair_ok_sound); qualifier scan; gcc -fsyntax-only",
             text="For every emitted accessor the cpu_serial, cpu_openmp, opencl and cuda specialisations are produced by the real specialize_source, translated independently and proved pairwise equivalent inside Coq (same address/value for all indices and memory contents), so C02 transfers to every target. Every pointer cast into object memory in the OpenCL text must carry __global (typedef'd handles: in their typedef). Supporting: gcc -fsyntax-only accepts each specialisation with the target keywords defined away.",
             ref="DESIGN.md §7 C15", note=TB + " Host-compiler acceptance is a supporting runtime test."),
}
NOT_YET = {}
def main():
    props = [json.loads(l) for l in open(os.path.join(V, "properties.jsonl"))]
    checks = []
    na = []
    for p in props:
        i = p["id"]
        if i in CHECKS:
            c = CHECKS[i]
            checks.append(dict(property_id=i, quick_cmd="./check %s --tier quick" % i, thorough_cmd="./check %s --tier thorough" % i,
                               evidence_file="/verif/evidence/%s.json" % i, replay_cmd_template="./check %s --replay {path}" % i,
                               engine="coq-proof+correspondence",
                               level_claimed=dict(category=c.get("category", "proof"), text=c["text"], design_ref=c["ref"]),
                               level_note=c.get("note", TB), technique=c["technique"]))
        else:
            na.append(dict(property_id=i, reason=NOT_YET.get(i, "check not built yet in this round (planned, see DESIGN.md §12); not claimed until its model, theorems and tie exist")))
    m = dict(version=1, setup_cmd="./setup.sh",
             hooks=dict(guard="XOBJECTS_VERIF", enable="none needed: no hooks are installed in /repo (the guard name is reserved and unused)",
                        baseline_off_cmd=BASE_OFF, source_commits=[], add_only=True),
             engines=[dict(name="coq-proof+correspondence", path="/verif/check", serves_properties=sorted(CHECKS),
                           kind_free_text="Rocq/Coq 8.16.1 theorems about hand-written Gallina models/specs; certified checkers evaluated with vm_compute on behaviour observed from /repo on every run")],
             checks=checks, not_applicable=na,
             notes="See DESIGN.md. fix: commits in /repo are listed in KNOWN_FINDINGS.json (status fixed). KNOWN_FINDINGS.json lists fixed/known defects.")
    json.dump(m, open(os.path.join(V, "MANIFEST.json"), "w"), indent=1)
main()
