#!/bin/sh
# Build the Coq development from files on disk (offline). Full .vo build.
set -e
cd "$(dirname "$0")/coq"
coq_makefile -f _CoqProject -o Makefile >/dev/null
timeout 3000 make -j"$(nproc)" 2>&1 | tail -5
# hygiene: no admitted proofs / declared axioms anywhere
if grep -rnE '\b(Admitted|admit|Axiom|Parameter|Conjecture)\b' theories --include=*.v | grep -v '(\*' ; then
  echo "hygiene check failed" >&2; exit 1
fi
echo "setup ok"
